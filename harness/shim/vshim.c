/*
 * vshim - LD_PRELOAD interposition library for mdsort verification:
 * call tracing, fault injection, crash injection, pausing, determinism.
 *
 * Build:  cc -O1 -g -shared -fPIC -o vshim.so vshim.c -ldl
 *
 * See README.md for the trace grammar and the environment variables.
 *
 * Design notes
 *  - Every wrapper resolves its real function lazily with dlsym(RTLD_NEXT),
 *    so wrappers are usable before vshim_init() ran and while it runs.
 *  - g_state: 0 = not initialised, 1 = initialising (wrappers pass through),
 *    2 = ready.  g_on is non-zero only if at least one VSHIM_* variable was
 *    present at initialisation and we are not in a forked child.
 *  - All shim-internal I/O uses real_* pointers or functions that are not
 *    interposed (readlink, getcwd, posix_spawn, ...).  Nothing the shim does
 *    for itself is ever counted as a call.
 *  - errno: each wrapper saves errno on entry (callers such as readdir users
 *    rely on a preset errno), restores it right before the real call, saves
 *    the errno left by the real call, and restores that after logging.
 *  - Not thread safe (mdsort is single threaded).
 */
#define _GNU_SOURCE

/*
 * glibc declares several of the interposed functions with nonnull
 * attributes. The wrappers still want to survive (or crash exactly like
 * libc does) when handed NULL, so keep the NULL checks.
 */
#if defined(__GNUC__) && !defined(__clang__)
#pragma GCC optimize ("no-delete-null-pointer-checks")
#pragma GCC diagnostic ignored "-Wnonnull-compare"
#endif

#include <sys/types.h>
#include <sys/resource.h>
#include <sys/stat.h>
#include <sys/syscall.h>
#include <sys/wait.h>

#include <dirent.h>
#include <dlfcn.h>
#include <errno.h>
#include <fcntl.h>
#include <limits.h>
#include <signal.h>
#include <spawn.h>
#include <stdarg.h>
#include <stdint.h>
#include <stdio.h>
#include <stdlib.h>
#include <string.h>
#include <time.h>
#include <unistd.h>

extern char **environ;

#define LOGFD_MIN	200
#define CONFIG_EXIT	99

/* ------------------------------------------------------------------ */
/* real functions                                                      */
/* ------------------------------------------------------------------ */

#define DECL_REAL(ret, name, ...) static ret (*real_##name)(__VA_ARGS__)
#define REAL(name) do {							\
	if (real_##name == NULL)					\
		*(void **)&real_##name = dlsym(RTLD_NEXT, #name);	\
} while (0)

DECL_REAL(int, open, const char *, int, ...);
DECL_REAL(int, open64, const char *, int, ...);
DECL_REAL(int, openat, int, const char *, int, ...);
DECL_REAL(int, openat64, int, const char *, int, ...);
DECL_REAL(ssize_t, read, int, void *, size_t);
DECL_REAL(ssize_t, write, int, const void *, size_t);
DECL_REAL(int, fsync, int);
DECL_REAL(int, close, int);
DECL_REAL(int, renameat, int, const char *, int, const char *);
DECL_REAL(int, unlinkat, int, const char *, int);
DECL_REAL(int, unlink, const char *);
DECL_REAL(int, mkdir, const char *, mode_t);
DECL_REAL(char *, mkdtemp, char *);
DECL_REAL(int, mkstemp, char *);
DECL_REAL(int, mkstemp64, char *);
DECL_REAL(int, mkostemp, char *, int);
DECL_REAL(int, mkostemp64, char *, int);
DECL_REAL(int, rmdir, const char *);
DECL_REAL(int, stat, const char *, struct stat *);
DECL_REAL(int, stat64, const char *, struct stat64 *);
DECL_REAL(int, lstat, const char *, struct stat *);
DECL_REAL(int, lstat64, const char *, struct stat64 *);
DECL_REAL(int, fstatat, int, const char *, struct stat *, int);
DECL_REAL(int, fstatat64, int, const char *, struct stat64 *, int);
DECL_REAL(int, utimensat, int, const char *, const struct timespec *, int);
DECL_REAL(int, fcntl, int, int, ...);
DECL_REAL(int, fcntl64, int, int, ...);
DECL_REAL(off_t, lseek, int, off_t, int);
DECL_REAL(off64_t, lseek64, int, off64_t, int);
DECL_REAL(FILE *, fdopen, int, const char *);
DECL_REAL(FILE *, fopen, const char *, const char *);
DECL_REAL(FILE *, fopen64, const char *, const char *);
DECL_REAL(int, fflush, FILE *);
DECL_REAL(int, fclose, FILE *);
DECL_REAL(DIR *, opendir, const char *);
DECL_REAL(struct dirent *, readdir, DIR *);
DECL_REAL(struct dirent64 *, readdir64, DIR *);
DECL_REAL(void, rewinddir, DIR *);
DECL_REAL(int, closedir, DIR *);
DECL_REAL(pid_t, fork, void);
DECL_REAL(pid_t, waitpid, pid_t, int *, int);
DECL_REAL(time_t, time, time_t *);
DECL_REAL(pid_t, getpid, void);
DECL_REAL(int, gethostname, char *, size_t);
DECL_REAL(uint32_t, arc4random, void);

/* ------------------------------------------------------------------ */
/* configuration and state                                             */
/* ------------------------------------------------------------------ */

enum fkind { F_NONE = 0, F_ERRNO, F_SHORT, F_SHORTHALF };

struct fitem {
	long	k;
	int	kind;
	int	err;
};

struct call {
	long		 k;
	const char	*name;
	int		 kind;		/* enum fkind scheduled for this call */
	int		 err;		/* errno for F_ERRNO */
	int		 faulted;	/* a fault was actually injected */
};

static int g_state;		/* 0 uninit, 1 initialising, 2 ready */
static int g_on;		/* shim enabled */
static long g_k;		/* next traced call index */
static int g_logfd = -1;
static char *g_logpath;

static struct fitem *g_fail;
static size_t g_nfail;
static long g_kill = -1;
static long *g_pause;
static size_t g_npause;
static char *g_pause_cmd;

static int g_have_time, g_have_pid, g_have_host, g_have_random;
static time_t g_time;
static pid_t g_pid;
static char *g_host;
static uint32_t g_random;
static struct timespec g_start;	/* coarse realtime at initialisation */
static int g_tmpnames;
static unsigned int g_tmpcounter;
static int g_sortdir;
static int g_dtype_unknown;	/* VSHIM_DTYPE=unknown */

static char **g_dev;		/* VSHIM_DEVMAP prefixes */
static size_t g_ndev;

/*
 * VSHIM_FSIZE: the kernel's own file size limit (RLIMIT_FSIZE, SIGXFSZ
 * ignored) is in force while the traced program runs, so that every write(2)
 * to a regular file - also the ones stdio issues internally, which cannot be
 * interposed - transfers a short count when it crosses the limit and fails
 * with EFBIG beyond it.  The shim lifts the limit around its own log writes
 * and pause commands and removes it in a forked child.
 */
static int g_have_fsize;
static rlim_t g_fsize;
static struct rlimit g_fsize_orig;

static void
fsize_set(int limited)
{
	struct rlimit rl;
	int e = errno;

	if (!g_have_fsize)
		return;
	rl = g_fsize_orig;
	if (limited)
		rl.rlim_cur = g_fsize;
	setrlimit(RLIMIT_FSIZE, &rl);
	errno = e;
}

#define MAXCHILD 64
static pid_t g_child[MAXCHILD];
static int g_nchild;

static const struct {
	const char	*name;
	int		 num;
} errtab[] = {
#define E(x) { #x, x }
	E(ENOENT), E(EEXIST), E(EACCES), E(EIO), E(ENOSPC), E(EXDEV),
	E(EMFILE), E(ENFILE), E(ENOMEM), E(EDQUOT), E(EROFS), E(EPERM),
	E(ENOTEMPTY), E(EBUSY), E(ENAMETOOLONG), E(EINVAL), E(EBADF),
	E(ESPIPE), E(EAGAIN), E(ECHILD), E(EINTR), E(ENOTDIR), E(EISDIR),
	E(ELOOP), E(EFBIG), E(EMLINK), E(ENXIO), E(ENODEV), E(ESRCH),
	E(EPIPE), E(EOVERFLOW), E(ENOSYS), E(ETXTBSY), E(ESTALE), E(EFAULT),
	E(E2BIG), E(ENOEXEC), E(ERANGE), E(ENOTSUP), E(ENOBUFS), E(ENOLCK),
#undef E
};
#define NERR (sizeof(errtab) / sizeof(errtab[0]))

/* ------------------------------------------------------------------ */
/* small helpers                                                       */
/* ------------------------------------------------------------------ */

static void
raw_write(int fd, const char *buf, size_t len)
{
	REAL(write);
	while (len > 0) {
		ssize_t n = real_write(fd, buf, len);
		if (n == -1) {
			if (errno == EINTR)
				continue;
			return;
		}
		buf += n;
		len -= (size_t)n;
	}
}

static void
config_error(const char *what, const char *detail)
{
	char buf[512];
	int n;

	n = snprintf(buf, sizeof(buf), "vshim: %s%s%s\n", what,
	    detail ? ": " : "", detail ? detail : "");
	if (n > 0)
		raw_write(2, buf, (size_t)n < sizeof(buf) ? (size_t)n :
		    sizeof(buf) - 1);
	_exit(CONFIG_EXIT);
}

static int
errno_by_name(const char *s, size_t len)
{
	size_t i;
	char *end;
	long v;
	char tmp[32];

	if (len == 0 || len >= sizeof(tmp))
		return -1;
	memcpy(tmp, s, len);
	tmp[len] = '\0';
	for (i = 0; i < NERR; i++)
		if (strcmp(errtab[i].name, tmp) == 0)
			return errtab[i].num;
	v = strtol(tmp, &end, 10);
	if (*end == '\0' && v > 0 && v < 4096)
		return (int)v;
	return -1;
}

static const char *
errno_name(int e)
{
	size_t i;

	for (i = 0; i < NERR; i++)
		if (errtab[i].num == e)
			return errtab[i].name;
	return NULL;
}

static int
parse_long(const char *s, size_t len, long *out)
{
	char tmp[32];
	char *end;
	long v;

	if (len == 0 || len >= sizeof(tmp))
		return -1;
	memcpy(tmp, s, len);
	tmp[len] = '\0';
	errno = 0;
	v = strtol(tmp, &end, 10);
	if (errno || *end != '\0' || v < 0)
		return -1;
	*out = v;
	return 0;
}

/* Own getenv: independent of programs that replace getenv (bash). */
static const char *
env_get(const char *name)
{
	size_t len = strlen(name);
	char **ep;

	if (environ == NULL)
		return NULL;
	for (ep = environ; *ep != NULL; ep++)
		if (strncmp(*ep, name, len) == 0 && (*ep)[len] == '=')
			return *ep + len + 1;
	return NULL;
}

static int
is_shim_var(const char *entry)
{
	return strncmp(entry, "VSHIM_", 6) == 0 ||
	    strncmp(entry, "LD_PRELOAD=", 11) == 0;
}

/* ------------------------------------------------------------------ */
/* log line builder                                                    */
/* ------------------------------------------------------------------ */

/* Worst case: four PATH_MAX strings with every byte escaped as \xHH. */
#define LBSZ	(4 * 4 * PATH_MAX + 4096)
#define LBTAIL	64	/* reserved for " FAULT\n" and the like */

struct lb {
	size_t	n;
	char	b[LBSZ];
};

static void
lb_putc(struct lb *l, char c)
{
	if (l->n < LBSZ - LBTAIL)
		l->b[l->n++] = c;
}

static void
lb_puts(struct lb *l, const char *s)
{
	while (*s)
		lb_putc(l, *s++);
}

static void
lb_long(struct lb *l, long long v)
{
	char tmp[32];

	snprintf(tmp, sizeof(tmp), "%lld", v);
	lb_puts(l, tmp);
}

/* C-style escaping so that the token never contains white space. */
static void
lb_esc(struct lb *l, const char *s)
{
	static const char hex[] = "0123456789abcdef";

	if (s == NULL) {
		lb_puts(l, "(null)");
		return;
	}
	for (; *s; s++) {
		unsigned char c = (unsigned char)*s;

		if (c == '\\') {
			lb_putc(l, '\\');
			lb_putc(l, '\\');
		} else if (c <= 0x20 || c >= 0x7f) {
			lb_putc(l, '\\');
			lb_putc(l, 'x');
			lb_putc(l, hex[c >> 4]);
			lb_putc(l, hex[c & 0xf]);
		} else {
			lb_putc(l, (char)c);
		}
	}
}

static void
lb_key(struct lb *l, const char *key)
{
	lb_putc(l, ' ');
	lb_puts(l, key);
	lb_putc(l, '=');
}

static void
lb_kv_s(struct lb *l, const char *key, const char *val)
{
	lb_key(l, key);
	lb_esc(l, val);
}

static void
lb_kv_i(struct lb *l, const char *key, long long val)
{
	lb_key(l, key);
	lb_long(l, val);
}

/*
 * st_mtim of a successful fstatat (the only stat field mdsort's file-system code uses): RUN for a file
 * modified after this process started (not reproducible), else seconds.nanoseconds.
 */
static void
lb_stat_mtime(struct lb *l, long long sec, long nsec)
{
	char tmp[64];

	lb_key(l, "st_mtime");
	if (g_have_time && (sec > g_start.tv_sec ||
	    (sec == g_start.tv_sec && nsec >= g_start.tv_nsec))) {
		lb_puts(l, "RUN");
	} else {
		snprintf(tmp, sizeof(tmp), "%lld.%09ld", sec, nsec);
		lb_puts(l, tmp);
	}
}

static void
lb_begin(struct lb *l, const struct call *c)
{
	l->n = 0;
	lb_long(l, c->k);
	lb_putc(l, ' ');
	lb_puts(l, c->name);
}

static void
lb_errno(struct lb *l, int e)
{
	const char *name = errno_name(e);

	lb_puts(l, "-1 errno=");
	if (name != NULL)
		lb_puts(l, name);
	else
		lb_long(l, e);
}

/* " = <r>" or " = -1 errno=<NAME>" when failed is set. */
static void
lb_result(struct lb *l, long long r, int failed, int e)
{
	lb_puts(l, " = ");
	if (failed)
		lb_errno(l, e);
	else
		lb_long(l, r);
}

static void
lb_flush(struct lb *l)
{
	l->b[l->n++] = '\n';
	if (g_logfd >= 0) {
		fsize_set(0);
		raw_write(g_logfd, l->b, l->n);
		fsize_set(1);
	}
}

static void
lb_end(struct lb *l, const struct call *c)
{
	if (c->faulted) {
		memcpy(&l->b[l->n], " FAULT", 6);
		l->n += 6;
	}
	lb_flush(l);
}

static void
lb_oflags(struct lb *l, int fl)
{
	static const struct {
		int		 bit;
		const char	*name;
	} tab[] = {
		{ O_CREAT, "O_CREAT" }, { O_EXCL, "O_EXCL" },
		{ O_CLOEXEC, "O_CLOEXEC" }, { O_TRUNC, "O_TRUNC" },
		{ O_APPEND, "O_APPEND" }, { O_DIRECTORY, "O_DIRECTORY" },
	};
	size_t i;
	int rest;

	lb_key(l, "flags");
	switch (fl & O_ACCMODE) {
	case O_WRONLY:
		lb_puts(l, "O_WRONLY");
		break;
	case O_RDWR:
		lb_puts(l, "O_RDWR");
		break;
	default:
		lb_puts(l, "O_RDONLY");
		break;
	}
	rest = fl & ~O_ACCMODE;
	for (i = 0; i < sizeof(tab) / sizeof(tab[0]); i++) {
		if ((rest & tab[i].bit) == tab[i].bit) {
			lb_putc(l, '|');
			lb_puts(l, tab[i].name);
			rest &= ~tab[i].bit;
		}
	}
#ifdef O_LARGEFILE
	rest &= ~O_LARGEFILE;	/* open64 vs open must trace identically */
#endif
	if (rest) {
		char tmp[32];

		snprintf(tmp, sizeof(tmp), "|0x%x", (unsigned int)rest);
		lb_puts(l, tmp);
	}
}

static void
lb_atflags(struct lb *l, int fl)
{
	static const struct {
		int		 bit;
		const char	*name;
	} tab[] = {
		{ AT_SYMLINK_NOFOLLOW, "AT_SYMLINK_NOFOLLOW" },
		{ AT_REMOVEDIR, "AT_REMOVEDIR" },
		{ AT_SYMLINK_FOLLOW, "AT_SYMLINK_FOLLOW" },
		{ AT_EMPTY_PATH, "AT_EMPTY_PATH" },
	};
	size_t i;
	int first = 1;

	lb_key(l, "flags");
	if (fl == 0) {
		lb_putc(l, '0');
		return;
	}
	for (i = 0; i < sizeof(tab) / sizeof(tab[0]); i++) {
		if (fl & tab[i].bit) {
			if (!first)
				lb_putc(l, '|');
			lb_puts(l, tab[i].name);
			fl &= ~tab[i].bit;
			first = 0;
		}
	}
	if (fl) {
		char tmp[32];

		snprintf(tmp, sizeof(tmp), "%s0x%x", first ? "" : "|",
		    (unsigned int)fl);
		lb_puts(l, tmp);
	}
}

static void
lb_mode(struct lb *l, mode_t m)
{
	char tmp[32];

	snprintf(tmp, sizeof(tmp), "0%o", (unsigned int)m);
	lb_key(l, "mode");
	lb_puts(l, tmp);
}

/* Resolve a directory descriptor to a path. Returns buf. */
static const char *
dirfd_path(int dfd, char *buf, size_t bufsiz)
{
	char link[64];
	ssize_t n;

	if (dfd == AT_FDCWD) {
		snprintf(buf, bufsiz, ".");
		return buf;
	}
	snprintf(link, sizeof(link), "/proc/self/fd/%d", dfd);
	n = readlink(link, buf, bufsiz - 1);
	if (n < 0) {
		snprintf(buf, bufsiz, "?");
		return buf;
	}
	buf[n] = '\0';
	return buf;
}

static void
lb_dir(struct lb *l, const char *fdkey, const char *dirkey, int dfd)
{
	char buf[PATH_MAX];

	lb_key(l, fdkey);
	if (dfd == AT_FDCWD)
		lb_puts(l, "AT_FDCWD");
	else
		lb_long(l, dfd);
	lb_kv_s(l, dirkey, dirfd_path(dfd, buf, sizeof(buf)));
}

/* Child pids are nondeterministic: with VSHIM_PID set print an ordinal. */
static void
lb_pid(struct lb *l, pid_t pid)
{
	int i;

	if (g_have_pid && pid > 0) {
		for (i = 0; i < g_nchild; i++) {
			if (g_child[i] == pid) {
				lb_putc(l, 'C');
				lb_long(l, i + 1);
				return;
			}
		}
	}
	lb_long(l, pid);
}

/* ------------------------------------------------------------------ */
/* initialisation                                                      */
/* ------------------------------------------------------------------ */

static void
parse_fail(const char *s)
{
	const char *p = s;
	size_t cap = 0;

	while (*p) {
		const char *end = strchr(p, ',');
		const char *colon;
		size_t len = end ? (size_t)(end - p) : strlen(p);
		struct fitem it;
		const char *spec;
		size_t speclen;

		if (len == 0)
			goto next;
		colon = memchr(p, ':', len);
		if (colon == NULL || parse_long(p, (size_t)(colon - p), &it.k))
			config_error("bad VSHIM_FAIL item", s);
		spec = colon + 1;
		speclen = len - (size_t)(spec - p);
		it.err = 0;
		if (speclen == 5 && memcmp(spec, "short", 5) == 0) {
			it.kind = F_SHORT;
		} else if (speclen == 9 && memcmp(spec, "shorthalf", 9) == 0) {
			it.kind = F_SHORTHALF;
		} else {
			it.kind = F_ERRNO;
			it.err = errno_by_name(spec, speclen);
			if (it.err <= 0)
				config_error("bad VSHIM_FAIL errno", s);
		}
		if (g_nfail == cap) {
			cap = cap ? cap * 2 : 8;
			g_fail = realloc(g_fail, cap * sizeof(*g_fail));
			if (g_fail == NULL)
				config_error("out of memory", NULL);
		}
		g_fail[g_nfail++] = it;
next:
		if (end == NULL)
			break;
		p = end + 1;
	}
}

static void
parse_pause(const char *s)
{
	const char *p = s;
	size_t cap = 0;

	while (*p) {
		const char *end = strchr(p, ',');
		size_t len = end ? (size_t)(end - p) : strlen(p);
		long k;

		if (len > 0) {
			if (parse_long(p, len, &k))
				config_error("bad VSHIM_PAUSE", s);
			if (g_npause == cap) {
				cap = cap ? cap * 2 : 8;
				g_pause = realloc(g_pause,
				    cap * sizeof(*g_pause));
				if (g_pause == NULL)
					config_error("out of memory", NULL);
			}
			g_pause[g_npause++] = k;
		}
		if (end == NULL)
			break;
		p = end + 1;
	}
}

static void
parse_devmap(const char *s)
{
	const char *p = s;
	size_t cap = 0;

	while (*p) {
		const char *end = strchr(p, ':');
		size_t len = end ? (size_t)(end - p) : strlen(p);

		if (len > 0) {
			char *raw, *canon;

			raw = strndup(p, len);
			if (raw == NULL)
				config_error("out of memory", NULL);
			if (raw[0] != '/')
				config_error("VSHIM_DEVMAP prefix not absolute",
				    raw);
			/* /proc/self/fd links are canonical, so canonicalise. */
			canon = realpath(raw, NULL);
			if (canon != NULL) {
				free(raw);
				raw = canon;
			}
			/* Strip trailing slashes (but keep "/"). */
			len = strlen(raw);
			while (len > 1 && raw[len - 1] == '/')
				raw[--len] = '\0';
			if (g_ndev == cap) {
				cap = cap ? cap * 2 : 4;
				g_dev = realloc(g_dev, cap * sizeof(*g_dev));
				if (g_dev == NULL)
					config_error("out of memory", NULL);
			}
			g_dev[g_ndev++] = raw;
		}
		if (end == NULL)
			break;
		p = end + 1;
	}
}

static void
open_log(const char *path)
{
	int fd, hi;

	REAL(open);
	REAL(fcntl);
	REAL(close);
	fd = real_open(path, O_WRONLY | O_CREAT | O_APPEND | O_CLOEXEC, 0644);
	if (fd == -1)
		config_error("cannot open VSHIM_LOG", path);
	hi = real_fcntl(fd, F_DUPFD_CLOEXEC, LOGFD_MIN);
	if (hi == -1) {
		struct rlimit rl;

		/* RLIMIT_NOFILE <= 200: take the highest possible number. */
		if (getrlimit(RLIMIT_NOFILE, &rl) == 0 && rl.rlim_cur > 4 &&
		    rl.rlim_cur <= LOGFD_MIN)
			hi = real_fcntl(fd, F_DUPFD_CLOEXEC,
			    (int)rl.rlim_cur - 1);
	}
	if (hi == -1)
		config_error("cannot move the log descriptor out of the way",
		    path);
	real_close(fd);
	g_logfd = hi;
	g_logpath = strdup(path);
}

static void
vshim_init(void)
{
	char **ep;
	const char *p;
	int any = 0;
	int saved_errno = errno;

	if (g_state != 0)
		return;
	g_state = 1;

	if (environ != NULL) {
		for (ep = environ; *ep != NULL; ep++) {
			if (strncmp(*ep, "VSHIM_", 6) == 0) {
				any = 1;
				break;
			}
		}
	}
	if (!any) {
		g_on = 0;
		g_state = 2;
		errno = saved_errno;
		return;
	}

	if ((p = env_get("VSHIM_LOG")) != NULL && *p != '\0')
		open_log(p);
	if ((p = env_get("VSHIM_FAIL")) != NULL)
		parse_fail(p);
	if ((p = env_get("VSHIM_KILL")) != NULL && *p != '\0') {
		if (parse_long(p, strlen(p), &g_kill))
			config_error("bad VSHIM_KILL", p);
	}
	if ((p = env_get("VSHIM_PAUSE")) != NULL && *p != '\0') {
		parse_pause(p);
		p = env_get("VSHIM_PAUSE_CMD");
		if (p == NULL)
			config_error("VSHIM_PAUSE without VSHIM_PAUSE_CMD",
			    NULL);
		g_pause_cmd = strdup(p);
	}
	if ((p = env_get("VSHIM_TIME")) != NULL && *p != '\0') {
		g_have_time = 1;
		g_time = (time_t)strtoll(p, NULL, 10);
		/* Same clock the kernel uses for file timestamps. */
		clock_gettime(CLOCK_REALTIME_COARSE, &g_start);
	}
	if ((p = env_get("VSHIM_PID")) != NULL && *p != '\0') {
		g_have_pid = 1;
		g_pid = (pid_t)strtol(p, NULL, 10);
	}
	if ((p = env_get("VSHIM_HOST")) != NULL) {
		g_have_host = 1;
		g_host = strdup(p);
	}
	if ((p = env_get("VSHIM_RANDOM")) != NULL && *p != '\0') {
		g_have_random = 1;
		g_random = (uint32_t)strtoul(p, NULL, 10);
	}
	if ((p = env_get("VSHIM_TMPNAMES")) != NULL && strcmp(p, "1") == 0)
		g_tmpnames = 1;
	g_sortdir = 1;
	if ((p = env_get("VSHIM_SORTDIR")) != NULL && strcmp(p, "0") == 0)
		g_sortdir = 0;
	/*
	 * VSHIM_DTYPE=unknown: the served snapshots report DT_UNKNOWN for every
	 * entry (what XFS and others do), so that callers have to stat(2).
	 * Without it every entry keeps the d_type the kernel reported.
	 */
	if ((p = env_get("VSHIM_DTYPE")) != NULL && strcmp(p, "unknown") == 0)
		g_dtype_unknown = 1;
	if ((p = env_get("VSHIM_DEVMAP")) != NULL)
		parse_devmap(p);
	if ((p = env_get("VSHIM_FSIZE")) != NULL && *p != '\0') {
		long v;

		if (parse_long(p, strlen(p), &v) || v < 0)
			config_error("bad VSHIM_FSIZE", p);
		if (getrlimit(RLIMIT_FSIZE, &g_fsize_orig) == -1)
			config_error("getrlimit RLIMIT_FSIZE", NULL);
		g_fsize = (rlim_t)v;
		if (g_fsize_orig.rlim_max != RLIM_INFINITY &&
		    g_fsize > g_fsize_orig.rlim_max)
			g_fsize = g_fsize_orig.rlim_max;
		/* Beyond the limit write(2) fails with EFBIG instead of killing. */
		signal(SIGXFSZ, SIG_IGN);
		g_have_fsize = 1;
		fsize_set(1);
	}

	g_on = 1;
	g_state = 2;
	errno = saved_errno;
}

__attribute__((constructor))
static void
vshim_ctor(void)
{
	vshim_init();
}

/*
 * VSHIM_OFF_AT_EXIT=1 (coverage measurement runs of tools/cov.py only): the
 * program under test was built with --coverage and its runtime writes .gcda
 * files from an exit-time destructor.  Registering the switch lazily, at the
 * first interposed call made after main() started, places it in front of the
 * dynamic linker's finaliser, so the switch runs before those destructors
 * and their file traffic is neither traced, counted nor faulted.
 */
static int g_offatexit = -1;

static void
vshim_off(void)
{
	g_on = 0;
}

static inline int
shim_on(void)
{
	if (g_state != 2) {
		if (g_state == 1)
			return 0;
		vshim_init();
	}
	if (g_offatexit == -1) {
		const char *v = getenv("VSHIM_OFF_AT_EXIT");

		g_offatexit = (v != NULL && *v == '1');
		if (g_offatexit)
			atexit(vshim_off);
	}
	return g_on;
}

static inline int
logging(void)
{
	return g_logfd >= 0;
}

static inline int
is_logfd(int fd)
{
	return g_logfd >= 0 && fd == g_logfd;
}

/* ------------------------------------------------------------------ */
/* per call hook: numbering, pause, kill, fault lookup                 */
/* ------------------------------------------------------------------ */

static long
real_pid(void)
{
	return syscall(SYS_getpid);
}

static void
do_pause(const struct call *c)
{
	posix_spawn_file_actions_t fa;
	char idx[64];
	char *argv[4];
	char **envp, **ep;
	size_t n = 0, i = 0;
	pid_t pid;
	int rc, status, err;

	for (ep = environ; ep != NULL && *ep != NULL; ep++)
		n++;
	envp = malloc((n + 2) * sizeof(*envp));
	if (envp == NULL)
		config_error("out of memory", NULL);
	for (ep = environ; ep != NULL && *ep != NULL; ep++)
		if (!is_shim_var(*ep))
			envp[i++] = *ep;
	snprintf(idx, sizeof(idx), "VSHIM_PAUSE_INDEX=%ld", c->k);
	envp[i++] = idx;
	envp[i] = NULL;

	argv[0] = (char *)"sh";
	argv[1] = (char *)"-c";
	argv[2] = g_pause_cmd;
	argv[3] = NULL;

	/* The command must not eat the stdin of the traced program. */
	posix_spawn_file_actions_init(&fa);
	posix_spawn_file_actions_addopen(&fa, 0, "/dev/null", O_RDONLY, 0);
	fsize_set(0);		/* the command is not subject to VSHIM_FSIZE */
	err = posix_spawn(&pid, "/bin/sh", &fa, NULL, argv, envp);
	fsize_set(1);
	posix_spawn_file_actions_destroy(&fa);
	free(envp);
	if (err != 0) {
		rc = -1;
	} else {
		REAL(waitpid);
		for (;;) {
			if (real_waitpid(pid, &status, 0) == -1) {
				if (errno == EINTR)
					continue;
				rc = -1;
			} else {
				rc = status;	/* same as system(3) */
			}
			break;
		}
	}

	if (logging()) {
		struct lb l;

		l.n = 0;
		lb_long(&l, c->k);
		lb_puts(&l, " PAUSE ");
		lb_puts(&l, c->name);
		lb_kv_i(&l, "rc", rc);
		lb_flush(&l);
	}
}

static void
do_kill(const struct call *c)
{
	if (logging()) {
		struct lb l;

		l.n = 0;
		lb_long(&l, c->k);
		lb_puts(&l, " KILLED-BEFORE ");
		lb_puts(&l, c->name);
		lb_flush(&l);
	}
	for (;;) {
		syscall(SYS_kill, real_pid(), SIGKILL);
		syscall(SYS_pause);
	}
}

/* Order at one index: pause, then kill, then fault. */
static void
pre(struct call *c, const char *name)
{
	size_t i;

	c->k = g_k++;
	c->name = name;
	c->kind = F_NONE;
	c->err = 0;
	c->faulted = 0;

	for (i = 0; i < g_npause; i++) {
		if (g_pause[i] == c->k) {
			do_pause(c);
			break;
		}
	}
	if (g_kill == c->k)
		do_kill(c);
	for (i = 0; i < g_nfail; i++) {
		if (g_fail[i].k == c->k) {
			c->kind = g_fail[i].kind;
			c->err = g_fail[i].err;
			break;
		}
	}
}

/* Apply short/shorthalf to a transfer count. */
static size_t
short_count(struct call *c, size_t count)
{
	size_t n = count;

	if (c->kind == F_SHORT && count > 1)
		n = 1;
	else if (c->kind == F_SHORTHALF && count > 1)
		n = count / 2;
	if (n != count)
		c->faulted = 1;
	return n;
}

/* ------------------------------------------------------------------ */
/* device map                                                          */
/* ------------------------------------------------------------------ */

static int
device_of(const char *path)
{
	size_t i, best = 0;
	int dev = 0;

	for (i = 0; i < g_ndev; i++) {
		size_t len = strlen(g_dev[i]);

		if (len == 1) {	/* "/" */
			if (best == 0) {
				best = 1;
				dev = (int)i + 1;
			}
			continue;
		}
		if (strncmp(path, g_dev[i], len) == 0 &&
		    (path[len] == '/' || path[len] == '\0') && len > best) {
			best = len;
			dev = (int)i + 1;
		}
	}
	return dev;
}

static int
device_at(int dfd, const char *path)
{
	char dir[PATH_MAX], full[2 * PATH_MAX + 2];

	if (path != NULL && path[0] == '/')
		return device_of(path);
	if (dfd == AT_FDCWD) {
		if (getcwd(dir, sizeof(dir)) == NULL)
			return 0;
	} else {
		dirfd_path(dfd, dir, sizeof(dir));
	}
	snprintf(full, sizeof(full), "%s/%s", dir, path ? path : "");
	return device_of(full);
}

/* ------------------------------------------------------------------ */
/* open family                                                         */
/* ------------------------------------------------------------------ */

enum { W_OPEN, W_OPEN64, W_OPENAT, W_OPENAT64 };

static int
real_open_variant(int which, int dfd, const char *path, int flags, mode_t mode)
{
	switch (which) {
	case W_OPEN:
		REAL(open);
		return real_open(path, flags, mode);
	case W_OPEN64:
		REAL(open64);
		return real_open64(path, flags, mode);
	case W_OPENAT:
		REAL(openat);
		return real_openat(dfd, path, flags, mode);
	default:
		REAL(openat64);
		return real_openat64(dfd, path, flags, mode);
	}
}

static int
do_open(int which, int dfd, const char *path, int flags, mode_t mode)
{
	struct call c;
	int e0 = errno;
	int isat = (which == W_OPENAT || which == W_OPENAT64);
	int r, e;

	if (!shim_on() || (path != NULL && g_logpath != NULL &&
	    strcmp(path, g_logpath) == 0)) {
		errno = e0;
		return real_open_variant(which, dfd, path, flags, mode);
	}

	pre(&c, isat ? "openat" : "open");
	if (c.kind == F_ERRNO) {
		r = -1;
		e = c.err;
		c.faulted = 1;
	} else {
		errno = e0;
		r = real_open_variant(which, dfd, path, flags, mode);
		e = errno;
	}
	if (logging()) {
		struct lb l;

		lb_begin(&l, &c);
		if (isat)
			lb_dir(&l, "dirfd", "dir", dfd);
		lb_kv_s(&l, "path", path);
		lb_oflags(&l, flags);
		if (flags & O_CREAT)
			lb_mode(&l, mode);
		lb_result(&l, r, r == -1, e);
		lb_end(&l, &c);
	}
	errno = e;
	return r;
}

#ifdef O_TMPFILE
#define NEEDS_MODE(fl) (((fl) & O_CREAT) || ((fl) & O_TMPFILE) == O_TMPFILE)
#else
#define NEEDS_MODE(fl) ((fl) & O_CREAT)
#endif

#define GET_MODE(flags, mode) do {					\
	if (NEEDS_MODE(flags)) {					\
		va_list ap_;						\
		va_start(ap_, flags);					\
		mode = (mode_t)va_arg(ap_, int);			\
		va_end(ap_);						\
	}								\
} while (0)

int
open(const char *path, int flags, ...)
{
	mode_t mode = 0;

	GET_MODE(flags, mode);
	return do_open(W_OPEN, AT_FDCWD, path, flags, mode);
}

int
open64(const char *path, int flags, ...)
{
	mode_t mode = 0;

	GET_MODE(flags, mode);
	return do_open(W_OPEN64, AT_FDCWD, path, flags, mode);
}

int
openat(int dfd, const char *path, int flags, ...)
{
	mode_t mode = 0;

	GET_MODE(flags, mode);
	return do_open(W_OPENAT, dfd, path, flags, mode);
}

int
openat64(int dfd, const char *path, int flags, ...)
{
	mode_t mode = 0;

	GET_MODE(flags, mode);
	return do_open(W_OPENAT64, dfd, path, flags, mode);
}

/* ------------------------------------------------------------------ */
/* read / write / fsync / close / lseek / fcntl                        */
/* ------------------------------------------------------------------ */

ssize_t
read(int fd, void *buf, size_t count)
{
	struct call c;
	int e0 = errno;
	ssize_t r;
	int e;

	REAL(read);
	if (!shim_on() || is_logfd(fd) || !(fd == 0 || fd >= 3)) {
		errno = e0;
		return real_read(fd, buf, count);
	}

	pre(&c, "read");
	if (c.kind == F_ERRNO) {
		r = -1;
		e = c.err;
		c.faulted = 1;
	} else {
		size_t n = short_count(&c, count);

		errno = e0;
		r = real_read(fd, buf, n);
		e = errno;
	}
	if (logging()) {
		struct lb l;

		lb_begin(&l, &c);
		lb_kv_i(&l, "fd", fd);
		lb_kv_i(&l, "n", (long long)count);
		lb_result(&l, r, r == -1, e);
		lb_end(&l, &c);
	}
	errno = e;
	return r;
}

ssize_t
write(int fd, const void *buf, size_t count)
{
	struct call c;
	int e0 = errno;
	ssize_t r;
	int e;

	REAL(write);
	if (!shim_on() || is_logfd(fd) || fd < 3) {
		errno = e0;
		return real_write(fd, buf, count);
	}

	pre(&c, "write");
	if (c.kind == F_ERRNO) {
		r = -1;
		e = c.err;
		c.faulted = 1;
	} else {
		size_t n = short_count(&c, count);

		errno = e0;
		r = real_write(fd, buf, n);
		e = errno;
	}
	if (logging()) {
		struct lb l;

		lb_begin(&l, &c);
		lb_kv_i(&l, "fd", fd);
		lb_kv_i(&l, "n", (long long)count);
		lb_result(&l, r, r == -1, e);
		lb_end(&l, &c);
	}
	errno = e;
	return r;
}

int
fsync(int fd)
{
	struct call c;
	int e0 = errno;
	int r, e;

	REAL(fsync);
	if (!shim_on() || is_logfd(fd)) {
		errno = e0;
		return real_fsync(fd);
	}

	pre(&c, "fsync");
	if (c.kind == F_ERRNO) {
		r = -1;
		e = c.err;
		c.faulted = 1;
	} else {
		errno = e0;
		r = real_fsync(fd);
		e = errno;
	}
	if (logging()) {
		struct lb l;

		lb_begin(&l, &c);
		lb_kv_i(&l, "fd", fd);
		lb_result(&l, r, r == -1, e);
		lb_end(&l, &c);
	}
	errno = e;
	return r;
}

int
close(int fd)
{
	struct call c;
	int e0 = errno;
	int r, e;

	REAL(close);
	if (is_logfd(fd)) {
		/* The program must not be able to close the trace. */
		errno = e0;
		return 0;
	}
	if (!shim_on() || fd < 3) {
		errno = e0;
		return real_close(fd);
	}

	pre(&c, "close");
	errno = e0;
	r = real_close(fd);	/* always performed: no descriptor leak */
	e = errno;
	if (c.kind == F_ERRNO) {
		r = -1;
		e = c.err;
		c.faulted = 1;
	}
	if (logging()) {
		struct lb l;

		lb_begin(&l, &c);
		lb_kv_i(&l, "fd", fd);
		lb_result(&l, r, r == -1, e);
		lb_end(&l, &c);
	}
	errno = e;
	return r;
}

static const char *
whence_name(int whence)
{
	switch (whence) {
	case SEEK_SET:
		return "SEEK_SET";
	case SEEK_CUR:
		return "SEEK_CUR";
	case SEEK_END:
		return "SEEK_END";
	default:
		return "?";
	}
}

static off64_t
do_lseek(int is64, int fd, off64_t off, int whence)
{
	struct call c;
	int e0 = errno;
	off64_t r;
	int e;

	REAL(lseek);
	REAL(lseek64);
	if (!shim_on() || is_logfd(fd)) {
		errno = e0;
		return is64 ? real_lseek64(fd, off, whence) :
		    (off64_t)real_lseek(fd, (off_t)off, whence);
	}

	pre(&c, "lseek");
	if (c.kind == F_ERRNO) {
		r = -1;
		e = c.err;
		c.faulted = 1;
	} else {
		errno = e0;
		r = is64 ? real_lseek64(fd, off, whence) :
		    (off64_t)real_lseek(fd, (off_t)off, whence);
		e = errno;
	}
	if (logging()) {
		struct lb l;

		lb_begin(&l, &c);
		lb_kv_i(&l, "fd", fd);
		lb_kv_i(&l, "off", (long long)off);
		lb_kv_s(&l, "whence", whence_name(whence));
		lb_result(&l, (long long)r, r == -1, e);
		lb_end(&l, &c);
	}
	errno = e;
	return r;
}

off_t
lseek(int fd, off_t off, int whence)
{
	return (off_t)do_lseek(0, fd, off, whence);
}

off64_t
lseek64(int fd, off64_t off, int whence)
{
	return do_lseek(1, fd, off, whence);
}

static int
do_fcntl(int is64, int fd, int cmd, void *arg)
{
	struct call c;
	int e0 = errno;
	int r, e;

	REAL(fcntl);
	REAL(fcntl64);
	if (real_fcntl64 == NULL)
		real_fcntl64 = real_fcntl;
	if (!shim_on() || cmd != F_DUPFD_CLOEXEC || is_logfd(fd)) {
		errno = e0;
		return is64 ? real_fcntl64(fd, cmd, arg) :
		    real_fcntl(fd, cmd, arg);
	}

	pre(&c, "fcntl");
	if (c.kind == F_ERRNO) {
		r = -1;
		e = c.err;
		c.faulted = 1;
	} else {
		errno = e0;
		r = is64 ? real_fcntl64(fd, cmd, arg) :
		    real_fcntl(fd, cmd, arg);
		e = errno;
	}
	if (logging()) {
		struct lb l;

		lb_begin(&l, &c);
		lb_kv_i(&l, "fd", fd);
		lb_kv_s(&l, "cmd", "F_DUPFD_CLOEXEC");
		lb_kv_i(&l, "min", (long long)(int)(intptr_t)arg);
		lb_result(&l, r, r == -1, e);
		lb_end(&l, &c);
	}
	errno = e;
	return r;
}

int
fcntl(int fd, int cmd, ...)
{
	va_list ap;
	void *arg;

	va_start(ap, cmd);
	arg = va_arg(ap, void *);
	va_end(ap);
	return do_fcntl(0, fd, cmd, arg);
}

int
fcntl64(int fd, int cmd, ...)
{
	va_list ap;
	void *arg;

	va_start(ap, cmd);
	arg = va_arg(ap, void *);
	va_end(ap);
	return do_fcntl(1, fd, cmd, arg);
}

/* ------------------------------------------------------------------ */
/* path operations                                                     */
/* ------------------------------------------------------------------ */

int
renameat(int ofd, const char *old, int nfd, const char *new)
{
	struct call c;
	int e0 = errno;
	int r, e;

	REAL(renameat);
	if (!shim_on()) {
		errno = e0;
		return real_renameat(ofd, old, nfd, new);
	}

	pre(&c, "renameat");
	if (c.kind == F_ERRNO) {
		r = -1;
		e = c.err;
		c.faulted = 1;
	} else if (g_ndev > 0 && device_at(ofd, old) != device_at(nfd, new)) {
		/* Simulated mount boundary: environment, not a fault. */
		r = -1;
		e = EXDEV;
	} else {
		errno = e0;
		r = real_renameat(ofd, old, nfd, new);
		e = errno;
	}
	if (logging()) {
		struct lb l;

		lb_begin(&l, &c);
		lb_dir(&l, "olddirfd", "olddir", ofd);
		lb_kv_s(&l, "old", old);
		lb_dir(&l, "newdirfd", "newdir", nfd);
		lb_kv_s(&l, "new", new);
		lb_result(&l, r, r == -1, e);
		lb_end(&l, &c);
	}
	errno = e;
	return r;
}

int
unlinkat(int dfd, const char *path, int flags)
{
	struct call c;
	int e0 = errno;
	int r, e;

	REAL(unlinkat);
	if (!shim_on()) {
		errno = e0;
		return real_unlinkat(dfd, path, flags);
	}

	pre(&c, "unlinkat");
	if (c.kind == F_ERRNO) {
		r = -1;
		e = c.err;
		c.faulted = 1;
	} else {
		errno = e0;
		r = real_unlinkat(dfd, path, flags);
		e = errno;
	}
	if (logging()) {
		struct lb l;

		lb_begin(&l, &c);
		lb_dir(&l, "dirfd", "dir", dfd);
		lb_kv_s(&l, "path", path);
		lb_atflags(&l, flags);
		lb_result(&l, r, r == -1, e);
		lb_end(&l, &c);
	}
	errno = e;
	return r;
}

/* Shared body for int f(const char *path) style calls. */
#define PATH_CALL(NAME, CALLEXPR, EXTRA) do {				\
	struct call c;							\
	int e0 = errno;							\
	int r, e;							\
									\
	if (!shim_on()) {						\
		errno = e0;						\
		return CALLEXPR;					\
	}								\
	pre(&c, NAME);							\
	if (c.kind == F_ERRNO) {					\
		r = -1;							\
		e = c.err;						\
		c.faulted = 1;						\
	} else {							\
		errno = e0;						\
		r = CALLEXPR;						\
		e = errno;						\
	}								\
	if (logging()) {						\
		struct lb l;						\
									\
		lb_begin(&l, &c);					\
		lb_kv_s(&l, "path", path);				\
		EXTRA;							\
		lb_result(&l, r, r == -1, e);				\
		lb_end(&l, &c);						\
	}								\
	errno = e;							\
	return r;							\
} while (0)

int
unlink(const char *path)
{
	REAL(unlink);
	PATH_CALL("unlink", real_unlink(path), (void)0);
}

int
mkdir(const char *path, mode_t mode)
{
	REAL(mkdir);
	PATH_CALL("mkdir", real_mkdir(path, mode), lb_mode(&l, mode));
}

int
rmdir(const char *path)
{
	REAL(rmdir);
	PATH_CALL("rmdir", real_rmdir(path), (void)0);
}

/*
 * What mdsort reads from a successful stat(2): the directory bit (isdirectory) and the three times in
 * seconds (date access|modified|created).
 */
#define LB_STAT(SB) do {						\
	if (r == 0 && (SB) != NULL) {					\
		lb_kv_i(&l, "isdir", S_ISDIR((SB)->st_mode) ? 1 : 0);	\
		lb_kv_i(&l, "atime", (long long)(SB)->st_atim.tv_sec);	\
		lb_kv_i(&l, "mtime", (long long)(SB)->st_mtim.tv_sec);	\
		lb_kv_i(&l, "ctime", (long long)(SB)->st_ctim.tv_sec);	\
	}								\
} while (0)

int
stat(const char *path, struct stat *sb)
{
	REAL(stat);
	PATH_CALL("stat", real_stat(path, sb), LB_STAT(sb));
}

int
stat64(const char *path, struct stat64 *sb)
{
	REAL(stat64);
	PATH_CALL("stat", real_stat64(path, sb), LB_STAT(sb));
}

int
lstat(const char *path, struct stat *sb)
{
	REAL(lstat);
	PATH_CALL("lstat", real_lstat(path, sb), (void)0);
}

int
lstat64(const char *path, struct stat64 *sb)
{
	REAL(lstat64);
	PATH_CALL("lstat", real_lstat64(path, sb), (void)0);
}

#define FSTATAT_BODY(CALLEXPR) do {					\
	struct call c;							\
	int e0 = errno;							\
	int r, e;							\
									\
	if (!shim_on()) {						\
		errno = e0;						\
		return CALLEXPR;					\
	}								\
	pre(&c, "fstatat");						\
	if (c.kind == F_ERRNO) {					\
		r = -1;							\
		e = c.err;						\
		c.faulted = 1;						\
	} else {							\
		errno = e0;						\
		r = CALLEXPR;						\
		e = errno;						\
	}								\
	if (logging()) {						\
		struct lb l;						\
									\
		lb_begin(&l, &c);					\
		lb_dir(&l, "dirfd", "dir", dfd);			\
		lb_kv_s(&l, "path", path);				\
		lb_atflags(&l, flags);					\
		if (r == 0)						\
			lb_stat_mtime(&l, sb->st_mtim.tv_sec, sb->st_mtim.tv_nsec); \
		lb_result(&l, r, r == -1, e);				\
		lb_end(&l, &c);						\
	}								\
	errno = e;							\
	return r;							\
} while (0)

int
fstatat(int dfd, const char *path, struct stat *sb, int flags)
{
	REAL(fstatat);
	FSTATAT_BODY(real_fstatat(dfd, path, sb, flags));
}

int
fstatat64(int dfd, const char *path, struct stat64 *sb, int flags)
{
	REAL(fstatat64);
	FSTATAT_BODY(real_fstatat64(dfd, path, sb, flags));
}

static void
lb_timespec(struct lb *l, const char *key, const struct timespec *ts)
{
	char tmp[64];

	lb_key(l, key);
	if (ts == NULL || ts->tv_nsec == UTIME_NOW) {
		lb_puts(l, "NOW");
	} else if (ts->tv_nsec == UTIME_OMIT) {
		lb_puts(l, "OMIT");
	} else if (g_have_time && (ts->tv_sec > g_start.tv_sec ||
	    (ts->tv_sec == g_start.tv_sec &&
	    ts->tv_nsec >= g_start.tv_nsec))) {
		/*
		 * A timestamp taken from a file created while this process
		 * ran: not reproducible, so keep pinned-time traces stable.
		 */
		lb_puts(l, "RUN");
	} else {
		snprintf(tmp, sizeof(tmp), "%lld.%09ld",
		    (long long)ts->tv_sec, (long)ts->tv_nsec);
		lb_puts(l, tmp);
	}
}

int
utimensat(int dfd, const char *path, const struct timespec times[2], int flags)
{
	struct call c;
	int e0 = errno;
	int r, e;

	REAL(utimensat);
	if (!shim_on()) {
		errno = e0;
		return real_utimensat(dfd, path, times, flags);
	}

	pre(&c, "utimensat");
	if (c.kind == F_ERRNO) {
		r = -1;
		e = c.err;
		c.faulted = 1;
	} else {
		errno = e0;
		r = real_utimensat(dfd, path, times, flags);
		e = errno;
	}
	if (logging()) {
		struct lb l;

		lb_begin(&l, &c);
		lb_dir(&l, "dirfd", "dir", dfd);
		lb_kv_s(&l, "path", path);
		lb_timespec(&l, "atime", times ? &times[0] : NULL);
		lb_timespec(&l, "mtime", times ? &times[1] : NULL);
		lb_atflags(&l, flags);
		lb_result(&l, r, r == -1, e);
		lb_end(&l, &c);
	}
	errno = e;
	return r;
}

/* ------------------------------------------------------------------ */
/* temporary names                                                     */
/* ------------------------------------------------------------------ */

/*
 * Deterministic replacement of the trailing XXXXXX. create() must return
 * >= 0 on success and -1/EEXIST when the name is taken.
 */
static int
det_tmpname(char *tmpl, int (*create)(const char *, int), int arg)
{
	size_t len = tmpl ? strlen(tmpl) : 0;
	char *x;

	if (len < 6 || strcmp(tmpl + len - 6, "XXXXXX") != 0) {
		errno = EINVAL;
		return -1;
	}
	x = tmpl + len - 6;
	while (g_tmpcounter < 99999) {
		char name[8];
		int r;

		snprintf(name, sizeof(name), "V%05u", ++g_tmpcounter);
		memcpy(x, name, 6);
		r = create(tmpl, arg);
		if (r >= 0)
			return r;
		if (errno != EEXIST) {
			memcpy(x, "XXXXXX", 6);
			return -1;
		}
	}
	memcpy(x, "XXXXXX", 6);
	errno = EEXIST;
	return -1;
}

static int
create_dir(const char *path, int arg)
{
	(void)arg;
	REAL(mkdir);
	return real_mkdir(path, 0700);
}

static int
create_file(const char *path, int flags)
{
	REAL(open);
	return real_open(path, (flags & ~O_ACCMODE) | O_RDWR | O_CREAT | O_EXCL,
	    0600);
}

static int
create_file64(const char *path, int flags)
{
	REAL(open64);
	return real_open64(path,
	    (flags & ~O_ACCMODE) | O_RDWR | O_CREAT | O_EXCL, 0600);
}

char *
mkdtemp(char *tmpl)
{
	struct call c;
	char orig[PATH_MAX];
	int e0 = errno;
	char *r;
	int e;

	REAL(mkdtemp);
	if (!shim_on()) {
		errno = e0;
		return real_mkdtemp(tmpl);
	}

	pre(&c, "mkdtemp");
	snprintf(orig, sizeof(orig), "%s", tmpl ? tmpl : "(null)");
	if (c.kind == F_ERRNO) {
		r = NULL;
		e = c.err;
		c.faulted = 1;
	} else if (g_tmpnames) {
		errno = e0;
		r = det_tmpname(tmpl, create_dir, 0) == -1 ? NULL : tmpl;
		e = errno;
	} else {
		errno = e0;
		r = real_mkdtemp(tmpl);
		e = errno;
	}
	if (logging()) {
		struct lb l;

		lb_begin(&l, &c);
		lb_kv_s(&l, "template", orig);
		lb_puts(&l, " = ");
		if (r == NULL)
			lb_errno(&l, e);
		else
			lb_esc(&l, r);
		lb_end(&l, &c);
	}
	errno = e;
	return r;
}

enum { T_MKSTEMP, T_MKSTEMP64, T_MKOSTEMP, T_MKOSTEMP64 };

static int
do_mkstemp(int which, char *tmpl, int flags)
{
	struct call c;
	char orig[PATH_MAX];
	int e0 = errno;
	int is_o = (which == T_MKOSTEMP || which == T_MKOSTEMP64);
	int is_64 = (which == T_MKSTEMP64 || which == T_MKOSTEMP64);
	int r, e;

	REAL(mkstemp);
	REAL(mkstemp64);
	REAL(mkostemp);
	REAL(mkostemp64);
#define REAL_MKSTEMP()							\
	(which == T_MKSTEMP ? real_mkstemp(tmpl) :			\
	 which == T_MKSTEMP64 ? real_mkstemp64(tmpl) :			\
	 which == T_MKOSTEMP ? real_mkostemp(tmpl, flags) :		\
	 real_mkostemp64(tmpl, flags))

	if (!shim_on()) {
		errno = e0;
		return REAL_MKSTEMP();
	}

	pre(&c, is_o ? "mkostemp" : "mkstemp");
	snprintf(orig, sizeof(orig), "%s", tmpl ? tmpl : "(null)");
	if (c.kind == F_ERRNO) {
		r = -1;
		e = c.err;
		c.faulted = 1;
	} else if (g_tmpnames) {
		errno = e0;
		r = det_tmpname(tmpl, is_64 ? create_file64 : create_file,
		    flags);
		e = errno;
	} else {
		errno = e0;
		r = REAL_MKSTEMP();
		e = errno;
	}
#undef REAL_MKSTEMP
	if (logging()) {
		struct lb l;

		lb_begin(&l, &c);
		lb_kv_s(&l, "template", orig);
		if (is_o)
			lb_oflags(&l, flags | O_RDWR);
		if (r != -1)
			lb_kv_s(&l, "path", tmpl);
		lb_result(&l, r, r == -1, e);
		lb_end(&l, &c);
	}
	errno = e;
	return r;
}

int
mkstemp(char *tmpl)
{
	return do_mkstemp(T_MKSTEMP, tmpl, 0);
}

int
mkstemp64(char *tmpl)
{
	return do_mkstemp(T_MKSTEMP64, tmpl, 0);
}

int
mkostemp(char *tmpl, int flags)
{
	return do_mkstemp(T_MKOSTEMP, tmpl, flags);
}

int
mkostemp64(char *tmpl, int flags)
{
	return do_mkstemp(T_MKOSTEMP64, tmpl, flags);
}

/* ------------------------------------------------------------------ */
/* stdio                                                               */
/* ------------------------------------------------------------------ */

static int
stream_fd(FILE *fh)
{
	return fh != NULL ? fileno(fh) : -1;
}

FILE *
fdopen(int fd, const char *mode)
{
	struct call c;
	int e0 = errno;
	FILE *r;
	int e;

	REAL(fdopen);
	if (!shim_on()) {
		errno = e0;
		return real_fdopen(fd, mode);
	}

	pre(&c, "fdopen");
	if (c.kind == F_ERRNO) {
		r = NULL;
		e = c.err;
		c.faulted = 1;
	} else {
		errno = e0;
		r = real_fdopen(fd, mode);
		e = errno;
	}
	if (logging()) {
		struct lb l;

		lb_begin(&l, &c);
		lb_kv_i(&l, "fd", fd);
		lb_kv_s(&l, "mode", mode);
		lb_result(&l, stream_fd(r), r == NULL, e);
		lb_end(&l, &c);
	}
	errno = e;
	return r;
}

static FILE *
do_fopen(int is64, const char *path, const char *mode)
{
	struct call c;
	int e0 = errno;
	FILE *r;
	int e;

	REAL(fopen);
	REAL(fopen64);
	if (!shim_on() || (path != NULL && g_logpath != NULL &&
	    strcmp(path, g_logpath) == 0)) {
		errno = e0;
		return is64 ? real_fopen64(path, mode) : real_fopen(path, mode);
	}

	pre(&c, "fopen");
	if (c.kind == F_ERRNO) {
		r = NULL;
		e = c.err;
		c.faulted = 1;
	} else {
		errno = e0;
		r = is64 ? real_fopen64(path, mode) : real_fopen(path, mode);
		e = errno;
	}
	if (logging()) {
		struct lb l;

		lb_begin(&l, &c);
		lb_kv_s(&l, "path", path);
		lb_kv_s(&l, "mode", mode);
		lb_result(&l, stream_fd(r), r == NULL, e);
		lb_end(&l, &c);
	}
	errno = e;
	return r;
}

FILE *
fopen(const char *path, const char *mode)
{
	return do_fopen(0, path, mode);
}

FILE *
fopen64(const char *path, const char *mode)
{
	return do_fopen(1, path, mode);
}

int
fprintf(FILE *fh, const char *fmt, ...)
{
	struct call c;
	va_list ap;
	int e0 = errno;
	int r, e;

	if (!shim_on() || fh == stdout || fh == stderr || fh == NULL) {
		errno = e0;
		va_start(ap, fmt);
		r = vfprintf(fh, fmt, ap);
		va_end(ap);
		return r;
	}

	pre(&c, "fprintf");
	if (c.kind == F_ERRNO) {
		r = -1;
		e = c.err;
		c.faulted = 1;
	} else {
		errno = e0;
		va_start(ap, fmt);
		r = vfprintf(fh, fmt, ap);
		va_end(ap);
		e = errno;
	}
	if (logging()) {
		struct lb l;

		lb_begin(&l, &c);
		lb_kv_i(&l, "fd", stream_fd(fh));
		lb_kv_s(&l, "fmt", fmt);
		lb_result(&l, r, r < 0, e);
		lb_end(&l, &c);
	}
	errno = e;
	return r;
}

int
fflush(FILE *fh)
{
	struct call c;
	int e0 = errno;
	int r, e;

	REAL(fflush);
	if (!shim_on() || fh == stdout || fh == stderr || fh == NULL) {
		errno = e0;
		return real_fflush(fh);
	}

	pre(&c, "fflush");
	if (c.kind == F_ERRNO) {
		r = EOF;
		e = c.err;
		c.faulted = 1;
	} else {
		errno = e0;
		r = real_fflush(fh);
		e = errno;
	}
	if (logging()) {
		struct lb l;

		lb_begin(&l, &c);
		lb_kv_i(&l, "fd", stream_fd(fh));
		lb_result(&l, r, r == EOF, e);
		lb_end(&l, &c);
	}
	errno = e;
	return r;
}

int
fclose(FILE *fh)
{
	struct call c;
	int e0 = errno;
	int fd, r, e;

	REAL(fclose);
	if (!shim_on() || fh == NULL) {
		errno = e0;
		return real_fclose(fh);
	}

	pre(&c, "fclose");
	fd = stream_fd(fh);
	errno = e0;
	r = real_fclose(fh);	/* always performed: no stream leak */
	e = errno;
	if (c.kind == F_ERRNO) {
		r = EOF;
		e = c.err;
		c.faulted = 1;
	}
	if (logging()) {
		struct lb l;

		lb_begin(&l, &c);
		lb_kv_i(&l, "fd", fd);
		lb_result(&l, r, r == EOF, e);
		lb_end(&l, &c);
	}
	errno = e;
	return r;
}

/* ------------------------------------------------------------------ */
/* directories                                                         */
/* ------------------------------------------------------------------ */

/*
 * Sorted directory snapshots. The snapshot is taken lazily by the first
 * readdir after opendir/rewinddir, which is when glibc issues its first
 * getdents(2): mdsort opens its stdin spool directory before it creates the
 * message in it and relies on the first readdir seeing that file.
 */
struct dsnap {
	DIR		*dir;
	struct dirent	*ents;
	size_t		 n, pos, cap;
	int		 stale;	/* snapshot must be (re)taken by next readdir */
	int		 err;	/* errno of a failed real readdir, served last */
	struct dsnap	*next;
};

static struct dsnap *g_snaps;

static struct dsnap *
snap_find(DIR *dir)
{
	struct dsnap *s;

	for (s = g_snaps; s != NULL; s = s->next)
		if (s->dir == dir)
			return s;
	return NULL;
}

static void
snap_drop(DIR *dir)
{
	struct dsnap **pp, *s;

	for (pp = &g_snaps; (s = *pp) != NULL; pp = &s->next) {
		if (s->dir == dir) {
			*pp = s->next;
			free(s->ents);
			free(s);
			return;
		}
	}
}

static int
dirent_cmp(const void *a, const void *b)
{
	return strcmp(((const struct dirent *)a)->d_name,
	    ((const struct dirent *)b)->d_name);
}

/* Register a directory stream for sorted reading. */
static void
snap_register(DIR *dir)
{
	struct dsnap *s;

	s = calloc(1, sizeof(*s));
	if (s == NULL)
		return;		/* fall back to the real readdir */
	s->dir = dir;
	s->stale = 1;
	s->next = g_snaps;
	g_snaps = s;
}

/* Read all entries with the real readdir and sort them by name. */
static void
snap_take(struct dsnap *s)
{
	DIR *dir = s->dir;

	REAL(readdir);
	s->n = s->pos = 0;
	s->err = 0;
	s->stale = 0;

	for (;;) {
		struct dirent *de;
		size_t len;

		errno = 0;
		de = real_readdir(dir);
		if (de == NULL) {
			s->err = errno;
			break;
		}
		if (s->n == s->cap) {
			size_t cap = s->cap ? s->cap * 2 : 32;
			struct dirent *tmp;

			tmp = realloc(s->ents, cap * sizeof(*tmp));
			if (tmp == NULL) {
				s->err = ENOMEM;
				break;
			}
			s->ents = tmp;
			s->cap = cap;
		}
		len = de->d_reclen;
		if (len > sizeof(struct dirent))
			len = sizeof(struct dirent);
		memset(&s->ents[s->n], 0, sizeof(struct dirent));
		memcpy(&s->ents[s->n], de, len);
		/* the real d_type of the entry is kept unless told otherwise */
		if (g_dtype_unknown)
			s->ents[s->n].d_type = DT_UNKNOWN;
		s->n++;
	}
	if (s->n > 1)
		qsort(s->ents, s->n, sizeof(struct dirent), dirent_cmp);
}

DIR *
opendir(const char *path)
{
	struct call c;
	int e0 = errno;
	DIR *r;
	int e;

	REAL(opendir);
	if (!shim_on()) {
		errno = e0;
		return real_opendir(path);
	}

	pre(&c, "opendir");
	if (c.kind == F_ERRNO) {
		r = NULL;
		e = c.err;
		c.faulted = 1;
	} else {
		errno = e0;
		r = real_opendir(path);
		e = errno;
		if (r != NULL && g_sortdir)
			snap_register(r);
	}
	if (logging()) {
		struct lb l;

		lb_begin(&l, &c);
		lb_kv_s(&l, "path", path);
		if (r != NULL) {
			/*
			 * opendir(3) opens the directory close-on-exec "by libc
			 * contract"; the descriptor hygiene theorem (C13) rests
			 * on it, so the flag of the stream's descriptor is
			 * recorded and the canonicaliser insists on it.
			 */
			int fdfl;

			REAL(fcntl);
			fdfl = real_fcntl(dirfd(r), F_GETFD);
			lb_kv_i(&l, "cloexec",
			    (fdfl != -1 && (fdfl & FD_CLOEXEC)) ? 1 : 0);
		}
		lb_result(&l, r ? dirfd(r) : -1, r == NULL, e);
		lb_end(&l, &c);
	}
	errno = e;
	return r;
}

/*
 * struct dirent and struct dirent64 have the same layout on x86_64, so one
 * implementation serves both entry points.
 */
_Static_assert(sizeof(struct dirent) == sizeof(struct dirent64),
    "dirent layout");

static struct dirent *
serve_readdir(DIR *dir, struct dsnap *s, int is64, int e0, int *ep)
{
	struct dirent *r;

	if (s != NULL) {
		if (s->stale)
			snap_take(s);
		if (s->pos < s->n) {
			*ep = e0;
			return &s->ents[s->pos++];
		}
		*ep = s->err ? s->err : e0;
		return NULL;
	}
	REAL(readdir);
	REAL(readdir64);
	errno = e0;
	r = is64 ? (struct dirent *)real_readdir64(dir) : real_readdir(dir);
	*ep = errno;
	return r;
}

static struct dirent *
do_readdir(DIR *dir, int is64)
{
	struct call c;
	struct dsnap *s;
	int e0 = errno;
	struct dirent *r;
	int e;

	s = g_snaps != NULL ? snap_find(dir) : NULL;
	if (!shim_on()) {
		/* Also reached in a forked child: keep serving snapshots. */
		r = serve_readdir(dir, s, is64, e0, &e);
		errno = e;
		return r;
	}

	pre(&c, "readdir");
	if (c.kind == F_ERRNO) {
		r = NULL;
		e = c.err;
		c.faulted = 1;
	} else {
		r = serve_readdir(dir, s, is64, e0, &e);
	}
	if (logging()) {
		struct lb l;

		lb_begin(&l, &c);
		lb_kv_i(&l, "fd", dir ? dirfd(dir) : -1);
		lb_puts(&l, " = ");
		if (r != NULL) {
			/* Keep a file called "END" apart from the marker. */
			if (strcmp(r->d_name, "END") == 0)
				lb_puts(&l, "\\x45ND");
			else if (r->d_name[0] == '\0')
				lb_puts(&l, "\\x00");
			else
				lb_esc(&l, r->d_name);
		} else if (e != e0 || c.faulted || (s && s->err)) {
			lb_errno(&l, e);
		} else {
			lb_puts(&l, "END");
		}
		lb_end(&l, &c);
	}
	errno = e;
	return r;
}

struct dirent *
readdir(DIR *dir)
{
	return do_readdir(dir, 0);
}

struct dirent64 *
readdir64(DIR *dir)
{
	return (struct dirent64 *)do_readdir(dir, 1);
}

void
rewinddir(DIR *dir)
{
	struct call c;
	struct dsnap *s;
	int e0 = errno;
	int e;

	REAL(rewinddir);
	if (!shim_on() || dir == NULL) {
		/* rewinddir(NULL) crashes in libc exactly as without shim. */
		errno = e0;
		real_rewinddir(dir);
		if (dir != NULL && g_snaps != NULL &&
		    (s = snap_find(dir)) != NULL)
			s->stale = 1;
		return;
	}

	pre(&c, "rewinddir");	/* cannot fail: errno faults are ignored */
	errno = e0;
	real_rewinddir(dir);
	e = errno;
	if ((s = snap_find(dir)) != NULL)
		s->stale = 1;
	if (logging()) {
		struct lb l;

		lb_begin(&l, &c);
		lb_kv_i(&l, "fd", dirfd(dir));
		lb_puts(&l, " = 0");
		lb_end(&l, &c);
	}
	errno = e;
}

int
closedir(DIR *dir)
{
	struct call c;
	int e0 = errno;
	int fd, r, e;

	REAL(closedir);
	if (!shim_on() || dir == NULL) {
		if (dir != NULL && g_snaps != NULL)
			snap_drop(dir);
		errno = e0;
		return real_closedir(dir);
	}

	pre(&c, "closedir");
	fd = dirfd(dir);
	snap_drop(dir);
	errno = e0;
	r = real_closedir(dir);	/* always performed: no descriptor leak */
	e = errno;
	if (c.kind == F_ERRNO) {
		r = -1;
		e = c.err;
		c.faulted = 1;
	}
	if (logging()) {
		struct lb l;

		lb_begin(&l, &c);
		lb_kv_i(&l, "fd", fd);
		lb_result(&l, r, r == -1, e);
		lb_end(&l, &c);
	}
	errno = e;
	return r;
}

/* ------------------------------------------------------------------ */
/* processes                                                           */
/* ------------------------------------------------------------------ */

/* In the forked child the shim turns itself into a pure pass-through. */
#define MAXNAMES 64
static void
child_reset(void)
{
	char names[MAXNAMES][64];
	char **ep;
	size_t i, nnames;

	g_on = 0;
	g_state = 2;
	if (g_logfd >= 0) {
		REAL(close);
		real_close(g_logfd);
		g_logfd = -1;
	}
	g_nfail = 0;
	g_npause = 0;
	g_kill = -1;
	g_ndev = 0;
	g_have_time = g_have_pid = g_have_host = g_have_random = 0;
	g_tmpnames = 0;
	g_sortdir = 0;
	if (g_have_fsize) {
		/* The command runs without the file size limit. */
		fsize_set(0);
		signal(SIGXFSZ, SIG_DFL);
		g_have_fsize = 0;
	}

	/*
	 * Drop LD_PRELOAD and VSHIM_* from the environment. The names are
	 * collected first because unsetenv() shuffles environ, and each name
	 * is unset exactly once: programs like bash replace unsetenv() with
	 * an implementation that does not touch environ at all, so "repeat
	 * until gone" would never terminate there.
	 */
	nnames = 0;
	for (ep = environ; ep != NULL && *ep != NULL; ep++) {
		const char *eq;
		size_t len;

		if (!is_shim_var(*ep) || nnames == MAXNAMES)
			continue;
		eq = strchr(*ep, '=');
		len = eq ? (size_t)(eq - *ep) : strlen(*ep);
		if (len == 0 || len >= sizeof(names[0]))
			continue;
		memcpy(names[nnames], *ep, len);
		names[nnames][len] = '\0';
		nnames++;
	}
	for (i = 0; i < nnames; i++)
		unsetenv(names[i]);
}

/*
 * What the child of fork() does before it becomes another program.
 *
 * The parent's trace line of a fork carries what the CHILD really hands to
 * exec and which descriptor it made its standard input:
 *
 *     k fork fn=execvp file=F stdin=N argc=C a0=A0 a1=A1 ... = childpid
 *
 * fork() opens a close-on-exec pipe first. The child keeps the write end
 * (g_report_fd): its dup2()/dup3() wrappers remember the source of the last
 * duplication onto descriptor 0, and its exec wrappers write one record
 * (function, file, argument vector, that source - checked against descriptor
 * 0 with kcmp(2), or by device and inode where kcmp is not available) and
 * then call the real function; a successful exec closes the pipe. The parent
 * reads the pipe to its end - so fork() returns in the parent once the child
 * has called exec or has exited - and writes the first record into its line
 * (`execs=N` is added when the child called exec N != 1 times, `noexec=1`
 * when it never did). `stdin=0`: the child duplicated nothing onto 0 (it keeps
 * the parent's standard input); `stdin=-2`: descriptor 0 is not what was
 * duplicated last.
 *
 * An injected fork() failure runs a ghost child: the process is forked all the
 * same, the child runs up to its first exec call, reports it and _exit(0)s
 * instead of executing anything; the parent reaps it and returns -1 with the
 * injected errno. The trace so also shows what the child of a failed fork()
 * WOULD have run (`... = -1 errno=EAGAIN FAULT`). Without a log nothing of
 * this happens (no pipe, no ghost).
 */
DECL_REAL(int, dup2, int, int);
DECL_REAL(int, dup3, int, int, int);
DECL_REAL(int, execvp, const char *, char *const *);
DECL_REAL(int, execv, const char *, char *const *);
DECL_REAL(int, execve, const char *, char *const *, char *const *);
DECL_REAL(int, execvpe, const char *, char *const *, char *const *);

#ifndef KCMP_FILE
#define KCMP_FILE 0
#endif

static int g_report_fd = -1;	/* forked child: write end of the report pipe */
static int g_ghost;		/* forked child of an injected fork() failure */
static int g_child_stdin;	/* forked child: source of the last dup onto 0 */

struct dbuf {
	char	*p;
	size_t	 n, cap;
};

static void
db_put(struct dbuf *b, const char *s, size_t len)
{
	if (b->n + len + 1 > b->cap) {
		size_t cap = b->cap ? b->cap : 256;
		char *q;

		while (b->n + len + 1 > cap)
			cap *= 2;
		q = realloc(b->p, cap);
		if (q == NULL)
			config_error("out of memory", NULL);
		b->p = q;
		b->cap = cap;
	}
	memcpy(b->p + b->n, s, len);
	b->n += len;
	b->p[b->n] = '\0';
}

static void
db_puts(struct dbuf *b, const char *s)
{
	db_put(b, s, strlen(s));
}

static void
db_long(struct dbuf *b, long long v)
{
	char tmp[32];

	snprintf(tmp, sizeof(tmp), "%lld", v);
	db_puts(b, tmp);
}

/* Same escaping as lb_esc(). */
static void
db_esc(struct dbuf *b, const char *s)
{
	static const char hex[] = "0123456789abcdef";

	if (s == NULL) {
		db_puts(b, "(null)");
		return;
	}
	for (; *s; s++) {
		unsigned char c = (unsigned char)*s;
		char tmp[4];

		if (c == '\\') {
			db_put(b, "\\\\", 2);
		} else if (c <= 0x20 || c >= 0x7f) {
			tmp[0] = '\\';
			tmp[1] = 'x';
			tmp[2] = hex[c >> 4];
			tmp[3] = hex[c & 0xf];
			db_put(b, tmp, 4);
		} else {
			db_put(b, (const char *)&c, 1);
		}
	}
}

/* Which descriptor of the child is its descriptor 0 a duplicate of? */
static int
child_stdin(void)
{
	struct stat a, b;
	long r;
	int fd = g_child_stdin;

	if (fd == 0)
		return 0;
	r = syscall(SYS_kcmp, real_pid(), real_pid(), KCMP_FILE, 0L, (long)fd);
	if (r == 0)
		return fd;
	if (r > 0)
		return -2;
	if (fstat(0, &a) == 0 && fstat(fd, &b) == 0 &&
	    a.st_dev == b.st_dev && a.st_ino == b.st_ino)
		return fd;
	return -2;
}

static void
child_report(const char *fn, const char *file, char *const *argv)
{
	struct dbuf d = { NULL, 0, 0 };
	int argc = 0, i;
	int e = errno;

	if (g_report_fd < 0)
		return;
	while (argv != NULL && argv[argc] != NULL)
		argc++;
	db_puts(&d, "fn=");
	db_puts(&d, fn);
	db_puts(&d, " file=");
	db_esc(&d, file);
	db_puts(&d, " stdin=");
	db_long(&d, child_stdin());
	db_puts(&d, " argc=");
	db_long(&d, argc);
	for (i = 0; i < argc; i++) {
		db_puts(&d, " a");
		db_long(&d, i);
		db_puts(&d, "=");
		db_esc(&d, argv[i]);
	}
	db_puts(&d, "\n");
	raw_write(g_report_fd, d.p, d.n);
	free(d.p);
	if (g_ghost)
		_exit(0);
	errno = e;
}

int
dup2(int oldfd, int newfd)
{
	int r;

	REAL(dup2);
	r = real_dup2(oldfd, newfd);
	if (g_report_fd >= 0 && r == 0 && newfd == 0)
		g_child_stdin = oldfd;
	return r;
}

int
dup3(int oldfd, int newfd, int flags)
{
	int r;

	REAL(dup3);
	r = real_dup3(oldfd, newfd, flags);
	if (g_report_fd >= 0 && r == 0 && newfd == 0)
		g_child_stdin = oldfd;
	return r;
}

int
execvp(const char *file, char *const argv[])
{
	REAL(execvp);
	child_report("execvp", file, argv);
	return real_execvp(file, argv);
}

int
execv(const char *path, char *const argv[])
{
	REAL(execv);
	child_report("execv", path, argv);
	return real_execv(path, argv);
}

int
execve(const char *path, char *const argv[], char *const envp[])
{
	REAL(execve);
	child_report("execve", path, argv);
	return real_execve(path, argv, envp);
}

int
execvpe(const char *file, char *const argv[], char *const envp[])
{
	REAL(execvpe);
	child_report("execvpe", file, argv);
	return real_execvpe(file, argv, envp);
}

/* execl(), execlp(), execle(): the vector is collected first. */
static char **
collect_args(const char *arg0, va_list ap, char *const **envp)
{
	va_list aq;
	char **argv;
	size_t n = 1, i;

	va_copy(aq, ap);
	if (arg0 != NULL)
		while (va_arg(aq, char *) != NULL)
			n++;
	va_end(aq);
	argv = malloc((n + 1) * sizeof(*argv));
	if (argv == NULL)
		config_error("out of memory", NULL);
	argv[0] = (char *)arg0;
	for (i = 1; i < n; i++)
		argv[i] = va_arg(ap, char *);
	argv[arg0 != NULL ? n : 0] = NULL;
	if (arg0 != NULL)
		(void)va_arg(ap, char *);	/* the terminating NULL */
	if (envp != NULL)
		*envp = va_arg(ap, char *const *);
	return argv;
}

int
execl(const char *path, const char *arg0, ...)
{
	va_list ap;
	char **argv;

	va_start(ap, arg0);
	argv = collect_args(arg0, ap, NULL);
	va_end(ap);
	REAL(execv);
	child_report("execl", path, argv);
	return real_execv(path, argv);
}

int
execlp(const char *file, const char *arg0, ...)
{
	va_list ap;
	char **argv;

	va_start(ap, arg0);
	argv = collect_args(arg0, ap, NULL);
	va_end(ap);
	REAL(execvp);
	child_report("execlp", file, argv);
	return real_execvp(file, argv);
}

int
execle(const char *path, const char *arg0, ...)
{
	va_list ap;
	char **argv;
	char *const *envp = NULL;

	va_start(ap, arg0);
	argv = collect_args(arg0, ap, &envp);
	va_end(ap);
	REAL(execve);
	child_report("execle", path, argv);
	return real_execve(path, argv, envp);
}

pid_t
fork(void)
{
	struct call c;
	struct dbuf rec = { NULL, 0, 0 };
	int e0 = errno;
	int rp[2] = { -1, -1 };
	int report, ghost;
	pid_t r;
	int e;

	REAL(fork);
	if (!shim_on()) {
		errno = e0;
		return real_fork();
	}

	pre(&c, "fork");
	report = logging();
	if (report && pipe2(rp, O_CLOEXEC) == -1)
		report = 0;
	ghost = report && c.kind == F_ERRNO;
	if (c.kind == F_ERRNO && !ghost) {
		r = -1;
		e = c.err;
		c.faulted = 1;
	} else {
		errno = e0;
		r = real_fork();
		e = errno;
		if (r == 0) {
			child_reset();
			if (report) {
				REAL(close);
				real_close(rp[0]);
				g_report_fd = rp[1];
				g_ghost = ghost;
				g_child_stdin = 0;
			}
			errno = e;
			return 0;
		}
		if (report) {
			char buf[4096];
			ssize_t n;

			REAL(close);
			REAL(read);
			real_close(rp[1]);
			while (r > 0) {
				n = real_read(rp[0], buf, sizeof(buf));
				if (n == -1 && errno == EINTR)
					continue;
				if (n <= 0)
					break;
				db_put(&rec, buf, (size_t)n);
			}
			real_close(rp[0]);
		}
		if (ghost) {
			if (r > 0) {
				REAL(waitpid);
				while (real_waitpid(r, NULL, 0) == -1 &&
				    errno == EINTR)
					continue;
			}
			r = -1;
			e = c.err;
			c.faulted = 1;
		} else if (r > 0 && g_nchild < MAXCHILD) {
			g_child[g_nchild++] = r;
		}
	}
	if (logging()) {
		struct dbuf d = { NULL, 0, 0 };
		struct lb l;
		size_t nrec = 0, first = 0, i;

		/* the first record of the child, and how many it wrote */
		for (i = 0; i < rec.n; i++) {
			if (rec.p[i] == '\n') {
				if (nrec == 0)
					first = i;
				nrec++;
			}
		}
		db_long(&d, c.k);
		db_puts(&d, " fork");
		if (report) {
			if (nrec == 0) {
				db_puts(&d, " noexec=1");
			} else {
				db_puts(&d, " ");
				db_put(&d, rec.p, first);
				if (nrec != 1) {
					db_puts(&d, " execs=");
					db_long(&d, (long long)nrec);
				}
			}
		}
		db_puts(&d, " = ");
		l.n = 0;
		if (r == -1)
			lb_errno(&l, e);
		else
			lb_pid(&l, r);
		db_put(&d, l.b, l.n);
		if (c.faulted)
			db_puts(&d, " FAULT");
		db_puts(&d, "\n");
		fsize_set(0);
		raw_write(g_logfd, d.p, d.n);
		fsize_set(1);
		free(d.p);
	}
	free(rec.p);
	errno = e;
	return r;
}

pid_t
waitpid(pid_t pid, int *status, int options)
{
	struct call c;
	int e0 = errno;
	int st = 0;
	pid_t r;
	int e;

	REAL(waitpid);
	if (!shim_on()) {
		errno = e0;
		return real_waitpid(pid, status, options);
	}

	pre(&c, "waitpid");
	if (c.kind == F_ERRNO) {
		r = -1;
		e = c.err;
		c.faulted = 1;
	} else {
		errno = e0;
		r = real_waitpid(pid, &st, options);
		e = errno;
		if (r > 0 && status != NULL)
			*status = st;
	}
	if (logging()) {
		struct lb l;

		lb_begin(&l, &c);
		lb_key(&l, "pid");
		lb_pid(&l, pid);
		lb_kv_i(&l, "options", options);
		lb_key(&l, "status");
		if (r > 0)
			lb_long(&l, st);
		else
			lb_putc(&l, '-');
		lb_puts(&l, " = ");
		if (r == -1)
			lb_errno(&l, e);
		else
			lb_pid(&l, r);
		lb_end(&l, &c);
	}
	errno = e;
	return r;
}

/* ------------------------------------------------------------------ */
/* pinned values: never traced, never faulted                          */
/* ------------------------------------------------------------------ */

time_t
time(time_t *t)
{
	int e0 = errno;

	REAL(time);
	if (!shim_on() || !g_have_time) {
		errno = e0;
		return real_time(t);
	}
	if (t != NULL)
		*t = g_time;
	errno = e0;
	return g_time;
}

pid_t
getpid(void)
{
	int e0 = errno;

	REAL(getpid);
	if (!shim_on() || !g_have_pid) {
		errno = e0;
		return real_getpid();
	}
	errno = e0;
	return g_pid;
}

int
gethostname(char *name, size_t len)
{
	int e0 = errno;
	size_t hl;

	REAL(gethostname);
	if (!shim_on() || !g_have_host) {
		errno = e0;
		return real_gethostname(name, len);
	}
	hl = strlen(g_host) + 1;
	if (hl > len) {
		/* Same as glibc: truncated copy and ENAMETOOLONG. */
		if (len > 0 && name != NULL)
			memcpy(name, g_host, len);
		errno = ENAMETOOLONG;
		return -1;
	}
	memcpy(name, g_host, hl);
	errno = e0;
	return 0;
}

uint32_t
arc4random(void)
{
	int e0 = errno;

	REAL(arc4random);
	if (!shim_on() || !g_have_random) {
		errno = e0;
		return real_arc4random();
	}
	errno = e0;
	return g_random;
}
