#!/bin/sh
# selftest.sh - build mdsort, vshim.so and exechelper in /tmp/agents/shim/build
# and check every feature of the shim against the real binary.
#
# Usage: sh selftest.sh            (sources are taken from the directory of
#                                   this script; mdsort from $REPO or /repo)
# Exit status 0 iff every check printed PASS.

set -u

HERE=$(cd "$(dirname "$0")" && pwd)
REPO=${REPO:-/repo}
B=${BUILD:-/tmp/agents/shim/build}
SHIM=$B/vshim.so
HELPER=$B/exechelper
MDSORT=$B/src/mdsort
T=$B/t				# scratch area for the test cases

nfail=0
npass=0

pass() { npass=$((npass + 1)); echo "PASS $1"; }
fail() { nfail=$((nfail + 1)); echo "FAIL $1"; }
info() { printf '     %s\n' "$1"; }

# check <label> <command...>: PASS iff the command succeeds
check() {
	_l=$1; shift
	if "$@" >/dev/null 2>&1; then pass "$_l"; else fail "$_l"; fi
}

# ---------------------------------------------------------------- build

build() {
	mkdir -p "$B" || exit 2
	rm -rf "$B/src" "$T"
	cp -r "$REPO" "$B/src" || exit 2
	(
		cd "$B/src" || exit 2
		rm -f "$B"/src/*.o "$B"/src/*.d "$B/src/mdsort" "$B/src/t"
		yacc -o parse.c parse.y 2>/dev/null || exit 2
		cc -O1 -g -w -I. -Ilibks -o mdsort libks/buffer.c \
		    libks/vector.c compat-*.c conf.c decode.c expr.c fault.c \
		    macro.c maildir.c match.c message.c parse.c time.c util.c \
		    mdsort.c || exit 2
	) || { echo "FAIL build mdsort"; exit 2; }
	cc -O1 -g -shared -fPIC -o "$SHIM" "$HERE/vshim.c" -ldl ||
	    { echo "FAIL build vshim.so"; exit 2; }
	cc -O1 -g -o "$HELPER" "$HERE/exechelper.c" ||
	    { echo "FAIL build exechelper"; exit 2; }
	echo "PASS build (mdsort, vshim.so, exechelper in $B)"
}

# ---------------------------------------------------------------- helpers

MSG='To: user@example.com
Subject: hi

body
'

# fresh <name>: create an empty work area $W with two maildirs and a message
fresh() {
	W=$T/$1
	rm -rf "$W"
	mkdir -p "$W/src/new" "$W/src/cur" "$W/src/tmp" \
	    "$W/dst/new" "$W/dst/cur" "$W/dst/tmp" "$W/tmp"
	printf '%s' "$MSG" >"$W/src/new/1.host"
	printf '%s' "$MSG" >"$W/msg"
	touch -d @500000000 "$W/src/new/1.host"
}

# conf <text>: write the configuration
conf() { printf '%s\n' "$1" >"$W/conf"; }

# mds [VAR=value ...]: run mdsort in walk mode under the shim with a pinned
# identity; mds_stdin: same in stdin mode with $W/msg as input. Both set RC
# and leave stdout/stderr of mdsort in $W/out and $W/err.
mds() {
	env HOME="$W" TMPDIR="$W/tmp" LD_PRELOAD="$SHIM" \
	    VSHIM_TIME=1000000000 VSHIM_PID=4242 VSHIM_HOST=host \
	    VSHIM_RANDOM=7 "$@" "$MDSORT" -f "$W/conf" \
	    </dev/null >"$W/out" 2>"$W/err"
	RC=$?
}

mds_stdin() {
	env HOME="$W" TMPDIR="$W/tmp" LD_PRELOAD="$SHIM" \
	    VSHIM_TIME=1000000000 VSHIM_PID=4242 VSHIM_HOST=host \
	    VSHIM_RANDOM=7 "$@" "$MDSORT" -f "$W/conf" - \
	    <"$W/msg" >"$W/out" 2>"$W/err"
	RC=$?
}

# index_of <log> <regex>: index of the first trace line matching the regex
index_of() { grep -E -m1 -- "$2" "$1" | cut -d' ' -f1; }

# sequential <log>: every call line is numbered 0,1,2,... without gaps
# (PAUSE and KILLED-BEFORE lines repeat the index of the call they precede)
sequential() {
	awk '
	$2 == "PAUSE" || $2 == "KILLED-BEFORE" { if ($1 != n) bad = 1; next }
	{ if ($1 != n) bad = 1; n++ }
	END { exit (bad || n == 0) }' "$1"
}

hex() { od -An -v -tx1 | tr -d ' \n'; }

build

# ---------------------------------------------------------------- (a)

echo "--- (a) traced move, determinism"
fresh a
conf "maildir \"$W/src\" { match header \"To\" /user/ move \"$W/dst\" }"
mds VSHIM_LOG="$W/log"
cp "$W/log" "$T/a.log1"
ls "$W/dst/new" >"$T/a.names1"
A_RC1=$RC
check "(a) exit status 0" test "$A_RC1" -eq 0
check "(a) indices are sequential from 0" sequential "$T/a.log1"
for pat in \
    "^[0-9]+ fopen path=$W/conf mode=r = [0-9]+\$" \
    "^[0-9]+ opendir path=$W/src/new cloexec=1 = [0-9]+\$" \
    "^[0-9]+ readdir fd=[0-9]+ = 1\\.host\$" \
    "^[0-9]+ readdir fd=[0-9]+ = END\$" \
    "^[0-9]+ openat dirfd=[0-9]+ dir=$W/src/new path=1\\.host flags=O_RDONLY\\|O_CLOEXEC = [0-9]+\$" \
    "^[0-9]+ fstatat dirfd=[0-9]+ dir=$W/src/new path=1\\.host flags=0 = 0\$" \
    "^[0-9]+ openat dirfd=[0-9]+ dir=$W/dst/new path=1000000000\\.4242_8\\.host:2, flags=O_WRONLY\\|O_CREAT\\|O_EXCL\\|O_CLOEXEC mode=0600 = [0-9]+\$" \
    "^[0-9]+ renameat olddirfd=[0-9]+ olddir=$W/src/new old=1\\.host newdirfd=[0-9]+ newdir=$W/dst/new new=1000000000\\.4242_8\\.host:2, = 0\$" \
    "^[0-9]+ utimensat dirfd=[0-9]+ dir=$W/dst/new path=1000000000\\.4242_8\\.host:2, atime=OMIT mtime=500000000\\.000000000 flags=0 = 0\$" \
    "^[0-9]+ closedir fd=[0-9]+ = 0\$"
do
	name=${pat#'^[0-9]+ '}; name=${name%% *}
	check "(a) trace has expected $name line" grep -E -q -- "$pat" "$T/a.log1"
done
check "(a) readdir is served sorted (. .. 1.host)" sh -c "
    grep -E 'readdir' '$T/a.log1' | head -3 | cut -d' ' -f5 | tr '\n' ' ' |
    grep -q '^\. \.\. 1\.host \$'"
check "(a) message arrived under the pinned name" \
    test -f "$W/dst/new/1000000000.4242_8.host:2,"
# second run, same paths, same pinned identity
fresh a
conf "maildir \"$W/src\" { match header \"To\" /user/ move \"$W/dst\" }"
mds VSHIM_LOG="$W/log"
ls "$W/dst/new" >"$T/a.names2"
check "(a) two pinned runs: byte-identical logs" cmp "$T/a.log1" "$W/log"
check "(a) two pinned runs: identical destination names" \
    cmp "$T/a.names1" "$T/a.names2"
K_RENAME=$(index_of "$T/a.log1" ' renameat ')
K_OPENDST=$(index_of "$T/a.log1" ' openat .*O_CREAT')
info "renameat is call $K_RENAME, placeholder openat is call $K_OPENDST"

# ---------------------------------------------------------------- (b)

echo "--- (b) VSHIM_FAIL=<renameat>:EIO"
fresh b
conf "maildir \"$W/src\" { match header \"To\" /user/ move \"$W/dst\" }"
mds VSHIM_LOG="$W/log" VSHIM_FAIL="$K_RENAME:EIO"
check "(b) mdsort exits 1" test "$RC" -eq 1
check "(b) trace shows the injected failure" grep -E -q \
    "^$K_RENAME renameat .* = -1 errno=EIO FAULT\$" "$W/log"
check "(b) exactly one FAULT line" test "$(grep -c ' FAULT$' "$W/log")" -eq 1
check "(b) mdsort reported the errno it was given" \
    grep -q 'renameat: Input/output error' "$W/err"
check "(b) message still in place" cmp "$W/msg" "$W/src/new/1.host"
check "(b) no stray file in destination" \
    test -z "$(find "$W/dst" -type f)"
check "(b) indices still sequential" sequential "$W/log"
# several faults in one run, numeric errno, close still closes
fresh b2
conf "maildir \"$W/src\" { match header \"To\" /user/ move \"$W/dst\" }"
K_CLOSE=$(index_of "$T/a.log1" ' close fd=')
mds VSHIM_LOG="$W/log" VSHIM_FAIL="$K_CLOSE:EIO,9999:ENOSPC,1:28"
check "(b) list of faults: fclose(1) fails with numeric 28=ENOSPC" \
    grep -E -q '^1 fclose fd=[0-9]+ = -1 errno=ENOSPC FAULT$' "$W/log"
# if fclose(conf) were skipped, fd 3 would stay busy and every later
# descriptor number would be shifted by one
sed 's/ FAULT$//; s/ = -1 errno=[A-Z]*$/ = 0/' "$W/log" | cut -d' ' -f1-3 \
    >"$T/b2.cmp1"
cut -d' ' -f1-3 "$T/a.log1" | sed "s#$T/a/#$T/b2/#g" >"$T/b2.cmp2"
check "(b) faulted close/fclose still close (same fd numbers as clean run)" \
    cmp "$T/b2.cmp1" "$T/b2.cmp2"

# ---------------------------------------------------------------- (c)

echo "--- (c) short write in stdin mode"
fresh c
conf "stdin { match all move \"$W/dst\" }"
mds_stdin VSHIM_LOG="$W/log0"
K_WRITE=$(index_of "$W/log0" ' write fd=')
K_READ0=$(index_of "$W/log0" ' read fd=0 ')
K_FSYNC=$(index_of "$W/log0" ' fsync ')
MSGLEN=$(wc -c <"$W/msg" | tr -d ' ')
check "(c) clean run delivers" test "$RC" -eq 0
fresh c
conf "stdin { match all move \"$W/dst\" }"
mds_stdin VSHIM_LOG="$W/log" VSHIM_FAIL="$K_WRITE:short"
check "(c) write of $MSGLEN bytes returned 1 and is marked" grep -E -q \
    "^$K_WRITE write fd=[0-9]+ n=$MSGLEN = 1 FAULT\$" "$W/log"
written=$(awk '$2 == "write" { for (i = 3; i <= NF; i++) if ($i == "=") s += $(i + 1) } END { print s + 0 }' "$W/log")
delivered=$(cat "$W"/dst/new/* 2>/dev/null | wc -c | tr -d ' ')
check "(c) delivered size equals the sum of the write results" \
    test "$written" -eq "$delivered"
if cmp -s "$W/msg" "$W"/dst/new/*; then
	info "mdsort retried the short write: message intact ($delivered bytes)"
	check "(c) retry asked for the remaining $((MSGLEN - 1)) bytes" \
	    grep -E -q "^$((K_WRITE + 1)) write fd=[0-9]+ n=$((MSGLEN - 1)) = $((MSGLEN - 1))\$" "$W/log"
else
	info "mdsort did NOT retry: delivered $delivered of $MSGLEN bytes (mdsort defect C01, not a shim failure)"
fi
fresh c
conf "stdin { match all move \"$W/dst\" }"
mds_stdin VSHIM_LOG="$W/log" VSHIM_FAIL="$K_READ0:shorthalf,$K_FSYNC:short"
check "(c) shorthalf on read(0, 8192) reads 4096 at most, marked" grep -E -q \
    "^$K_READ0 read fd=0 n=8192 = $MSGLEN FAULT\$" "$W/log"
check "(c) short on a non read/write call is ignored" sh -c "
    ! grep -E '^[0-9]+ fsync .* FAULT' '$W/log'"

# ---------------------------------------------------------------- (d)

echo "--- (d) VSHIM_KILL"
fresh d
conf "maildir \"$W/src\" { match header \"To\" /user/ move \"$W/dst\" }"
(
	env HOME="$W" TMPDIR="$W/tmp" LD_PRELOAD="$SHIM" VSHIM_LOG="$W/log" \
	    VSHIM_TIME=1000000000 VSHIM_PID=4242 VSHIM_HOST=host \
	    VSHIM_RANDOM=7 VSHIM_KILL="$K_RENAME" \
	    "$MDSORT" -f "$W/conf" </dev/null >/dev/null 2>&1
	echo $? >"$W/rc"
) 2>/dev/null
RC=$(cat "$W/rc")
check "(d) process died from SIGKILL (status 137)" test "$RC" -eq 137
check "(d) log ends with KILLED-BEFORE" sh -c "
    tail -n 1 '$W/log' | grep -q '^$K_RENAME KILLED-BEFORE renameat\$'"
check "(d) calls before the kill point are all logged" \
    test "$(wc -l <"$W/log")" -eq $((K_RENAME + 1))
check "(d) crash state: source and placeholder both exist" sh -c "
    test -f '$W/src/new/1.host' && test -f '$W/dst/new/1000000000.4242_8.host:2,'"

# ---------------------------------------------------------------- (e)

echo "--- (e) VSHIM_PAUSE"
fresh e
conf "maildir \"$W/src\" { match header \"To\" /user/ move \"$W/dst\" }"
cat >"$W/pause.sh" <<EOF
#!/bin/sh
{
	printf 'index=%s preload=%s log=%s ' "\$VSHIM_PAUSE_INDEX" "\${LD_PRELOAD:-unset}" "\${VSHIM_LOG:-unset}"
	printf 'src=%s dst=%s\n' "\$(ls $W/src/new | tr '\n' ',')" "\$(ls $W/dst/new | tr '\n' ',')"
} >>$W/marker
exit 3
EOF
chmod +x "$W/pause.sh"
mds VSHIM_LOG="$W/log" VSHIM_PAUSE="$K_OPENDST,$K_RENAME" \
    VSHIM_PAUSE_CMD="$W/pause.sh"
check "(e) run still succeeds" test "$RC" -eq 0
check "(e) command ran twice" test "$(wc -l <"$W/marker")" -eq 2
check "(e) 1st pause: before the placeholder exists, env scrubbed" grep -q \
    "^index=$K_OPENDST preload=unset log=unset src=1.host, dst=\$" "$W/marker"
check "(e) 2nd pause: placeholder exists, source not yet renamed" grep -q \
    "^index=$K_RENAME preload=unset log=unset src=1.host, dst=1000000000.4242_8.host:2,,\$" "$W/marker"
check "(e) PAUSE line with rc (exit 3 -> 768) precedes the call line" sh -c "
    grep -A1 '^$K_RENAME PAUSE renameat rc=768\$' '$W/log' | tail -n 1 |
    grep -q '^$K_RENAME renameat .* = 0\$'"
check "(e) same calls as the unpaused run plus the two PAUSE lines" sh -c "
    test \$(grep -c . '$W/log') -eq \$(( \$(grep -c . '$T/a.log1') + 2 ))"

# ---------------------------------------------------------------- (f)

echo "--- (f) VSHIM_DEVMAP"
fresh f
conf "maildir \"$W/src\" { match header \"To\" /user/ move \"$W/dst\" }"
mds VSHIM_LOG="$W/log" VSHIM_DEVMAP="$W/dst:/nonexistent/prefix"
check "(f) exit status 0" test "$RC" -eq 0
check "(f) renameat fails with EXDEV and is not marked FAULT" grep -E -q \
    '^[0-9]+ renameat .* = -1 errno=EXDEV$' "$W/log"
for c in fcntl fdopen fprintf fflush fsync fclose unlinkat utimensat; do
	check "(f) copy path: $c in trace" grep -E -q "^[0-9]+ $c " "$W/log"
done
check "(f) source removed" test ! -e "$W/src/new/1.host"
check "(f) message arrived intact" \
    cmp "$W/msg" "$W/dst/new/1000000000.4242_8.host:2,"
check "(f) mtime preserved" test \
    "$(stat -c %Y "$W/dst/new/1000000000.4242_8.host:2,")" -eq 500000000
fresh f2
conf "maildir \"$W/src\" { match header \"To\" /user/ move \"$W/dst\" }"
mds VSHIM_LOG="$W/log" VSHIM_DEVMAP="$W"
check "(f) both maildirs on the same mapped device: plain rename" \
    grep -E -q '^[0-9]+ renameat .* = 0$' "$W/log"

# ---------------------------------------------------------------- (g)

echo "--- (g) label (rewrite)"
fresh g
conf "maildir \"$W/src\" { match all label \"x\" }"
mds VSHIM_LOG="$W/log"
check "(g) exit status 0" test "$RC" -eq 0
for pat in \
    'openat .*O_WRONLY\|O_CREAT\|O_EXCL\|O_CLOEXEC mode=0600 = [0-9]+$' \
    'fcntl fd=[0-9]+ cmd=F_DUPFD_CLOEXEC min=0 = [0-9]+$' \
    'fdopen fd=[0-9]+ mode=we = [0-9]+$' \
    'fprintf fd=[0-9]+ fmt=%s:\\x20%s\\x0a = [0-9]+$' \
    'fprintf fd=[0-9]+ fmt=\\x0a%s = 6$' \
    'fflush fd=[0-9]+ = 0$' \
    'fsync fd=[0-9]+ = 0$' \
    'fclose fd=[0-9]+ = 0$' \
    'unlinkat dirfd=[0-9]+ dir=[^ ]+ path=1\.host flags=0 = 0$'
do
	name=${pat%% *}
	check "(g) trace has $name" grep -E -q "^[0-9]+ $pat" "$W/log"
done
check "(g) order fdopen < fprintf < fflush < fsync < fclose < unlinkat" sh -c "
    sed -n '/ fdopen /,\$p' '$W/log' |
    grep -E -o '^[0-9]+ (fdopen|fprintf|fflush|fsync|fclose|unlinkat)' |
    cut -d' ' -f2 | uniq | tr '\n' ' ' |
    grep -q '^fdopen fprintf fflush fsync fclose unlinkat \$'"
check "(g) rewritten message carries the label" \
    grep -q '^X-Label: x$' "$W/src/new/1000000000.4242_8.host:2,"
K_FPRINTF=$(index_of "$W/log" ' fprintf ')
fresh g2
conf "maildir \"$W/src\" { match all label \"x\" }"
mds VSHIM_LOG="$W/log" VSHIM_FAIL="$K_FPRINTF:ENOSPC"
check "(g) fprintf fault: exit 1, original kept, no stray file" sh -c "
    test $RC -eq 1 && cmp '$W/msg' '$W/src/new/1.host' &&
    test \$(ls '$W/src/new' | wc -l) -eq 1"
check "(g) fprintf fault: va_list forwarding unharmed on later runs" \
    grep -E -q "^$K_FPRINTF fprintf .* = -1 errno=ENOSPC FAULT\$" "$W/log"

# ---------------------------------------------------------------- (h)

echo "--- (h) exec with exechelper"
fresh h
# mdsort's grammar rejects a literal "" ("empty string"), so the empty
# argument is produced by an empty back-reference.
conf "maildir \"$W/src\" { match header \"To\" /user/ exec stdin { \"$HELPER\" \"a b\" \"\" } }"
if env HOME="$W" "$MDSORT" -n -f "$W/conf" >/dev/null 2>&1; then
	info 'literal "" accepted by the configuration grammar'
else
	info 'literal "" rejected by mdsort ("empty string"): using an empty back-reference \1'
	conf "maildir \"$W/src\" { match header \"To\" /(x*)user/ exec stdin { \"$HELPER\" \"a b\" \"\\1\" } }"
fi
EXECHELPER_OUT="$W/base" "$HELPER" </dev/null
BASEFDS=$(sed 's/.* fds=\([^ ]*\) .*/\1/' "$W/base")
mds VSHIM_LOG="$W/log" EXECHELPER_OUT="$W/eh"
check "(h) exit status 0" test "$RC" -eq 0
check "(h) helper wrote exactly one line" test "$(wc -l <"$W/eh")" -eq 1
check "(h) argv recorded: 'a b' and the empty argument" \
    grep -q '^argv=612062,- ' "$W/eh"
check "(h) stdin bytes are the message" \
    grep -q " stdin=$(hex <"$W/msg") " "$W/eh"
check "(h) no descriptor leaked into the command (fds=$BASEFDS)" \
    grep -q " fds=$BASEFDS " "$W/eh"
check "(h) stdin is the message file" \
    grep -q " stdin_target=$W/src/new/1.host\$" "$W/eh"
check "(h) trace: fcntl, lseek, fork ... = C1, waitpid status=0" sh -c "
    grep -E -q '^[0-9]+ lseek fd=[0-9]+ off=0 whence=SEEK_SET = 0\$' '$W/log' &&
    grep -E -q '^[0-9]+ fork fn=execvp file=[^ ]+ stdin=[0-9]+ argc=3 a0=[^ ]+ a1=a\\\\x20b a2= = C1\$' '$W/log' &&
    grep -E -q '^[0-9]+ waitpid pid=C1 options=0 status=0 = C1\$' '$W/log'"
# the fork line carries what the CHILD handed to execvp and the descriptor it duplicated onto 0
DUPFD=$(sed -n 's/^[0-9]* fcntl .*cmd=F_DUPFD_CLOEXEC.* = \([0-9]*\)$/\1/p' "$W/log" | head -1)
check "(h) fork line: file = argv[0] = the helper, stdin = the duplicated descriptor ($DUPFD)" sh -c "
    grep -E -q '^[0-9]+ fork fn=execvp file=$HELPER stdin=$DUPFD argc=3 a0=$HELPER ' '$W/log'"
check "(h) the child is not traced (indices sequential, no child lines)" \
    sequential "$W/log"
fresh h2
conf "maildir \"$W/src\" { match all exec stdin body { \"$HELPER\" } exec \"$HELPER\" }"
mds VSHIM_LOG="$W/log" EXECHELPER_OUT="$W/eh" VSHIM_TMPNAMES=1
check "(h) exec stdin body: body only, deterministic temp file" sh -c "
    sed -n 1p '$W/eh' | grep -q '^argv=- stdin=$(printf 'body\n' | hex) fds=$BASEFDS stdin_target=$W/tmp/mdsort-XXV00001\\\\x20(deleted)\$'"
check "(h) plain exec: stdin is /dev/null and empty" sh -c "
    sed -n 2p '$W/eh' | grep -q '^argv=- stdin=- fds=$BASEFDS stdin_target=/dev/null\$'"
check "(h) trace shows the /dev/null open" grep -E -q \
    '^[0-9]+ open path=/dev/null flags=O_RDONLY\|O_CLOEXEC = [0-9]+$' "$W/log"
fresh h3
conf "maildir \"$W/src\" { match all exec \"$HELPER\" }"
mds VSHIM_LOG="$W/log" EXECHELPER_OUT="$W/eh" EXECHELPER_EXIT=3
check "(h) EXECHELPER_EXIT=3: waitpid status=768, mdsort exits 1" sh -c "
    test $RC -eq 1 && grep -q ' waitpid .* status=768 = C1\$' '$W/log'"
fresh h4
conf "maildir \"$W/src\" { match all exec \"$HELPER\" }"
mds VSHIM_LOG="$W/log" EXECHELPER_OUT="$W/eh" EXECHELPER_SIGNAL=15
check "(h) EXECHELPER_SIGNAL=15: waitpid status=15" \
    grep -q ' waitpid .* status=15 = C1$' "$W/log"
K_FORK=$(index_of "$W/log" ' fork ')
fresh h5
conf "maildir \"$W/src\" { match all exec \"$HELPER\" }"
mds VSHIM_LOG="$W/log" EXECHELPER_OUT="$W/eh" VSHIM_FAIL="$K_FORK:EAGAIN"
check "(h) fork fault: no child ran (the ghost child reports its exec call and exits), mdsort exits 1" sh -c "
    test $RC -eq 1 && test ! -e '$W/eh' &&
    grep -E -q '^$K_FORK fork fn=execvp file=$HELPER stdin=[0-9]+ argc=1 a0=$HELPER = -1 errno=EAGAIN FAULT\$' '$W/log'"
DEVNULL=$(sed -n 's/^[0-9]* open path=\/dev\/null .* = \([0-9]*\)$/\1/p' "$W/log" | head -1)
check "(h) fork fault: stdin of the would-be child is the /dev/null just opened ($DEVNULL)" \
    grep -q "^$K_FORK fork .* stdin=$DEVNULL " "$W/log"

# ---------------------------------------------------------------- (i)

echo "--- (i) stdin mode with VSHIM_TMPNAMES=1"
fresh i
conf "stdin { match all move \"$W/dst\" }"
mds_stdin VSHIM_LOG="$W/log" VSHIM_TMPNAMES=1
check "(i) exit status 0 and message delivered intact" sh -c "
    test $RC -eq 0 && cmp '$W/msg' '$W/dst/new/1000000000.4242_8.host:2,'"
check "(i) spool directory is \$TMPDIR/mdsort-XXV00001" grep -q \
    "^[0-9]* mkdtemp template=$W/tmp/mdsort-XXXXXXXX = $W/tmp/mdsort-XXV00001\$" "$W/log"
check "(i) spool message is found by the first readdir after it was written" \
    grep -E -q '^[0-9]+ readdir fd=[0-9]+ = 1000000000\.4242_8\.host$' "$W/log"
check "(i) spool removed again" test -z "$(ls -A "$W/tmp")"
cp "$W/log" "$T/i.log1"
fresh i
conf "stdin { match all move \"$W/dst\" }"
mds_stdin VSHIM_LOG="$W/log" VSHIM_TMPNAMES=1
check "(i) two runs: byte-identical logs" cmp "$T/i.log1" "$W/log"
fresh i2
conf "stdin { match all move \"$W/dst\" }"
mkdir "$W/tmp/mdsort-XXV00001"
mds_stdin VSHIM_LOG="$W/log" VSHIM_TMPNAMES=1
check "(i) existing name is skipped: V00002" grep -q \
    " mkdtemp .* = $W/tmp/mdsort-XXV00002\$" "$W/log"

# ---------------------------------------------------------------- (j)

echo "--- (j) no VSHIM_* variable: pure pass-through"
fresh j
conf "maildir \"$W/src\" { match header \"To\" /user/ move \"$W/dst\" }"
env HOME="$W" TMPDIR="$W/tmp" LD_PRELOAD="$SHIM" "$MDSORT" -f "$W/conf" \
    </dev/null >"$W/out" 2>"$W/err"
RC=$?
check "(j) exit status 0, nothing on stdout/stderr" sh -c "
    test $RC -eq 0 && test ! -s '$W/out' && test ! -s '$W/err'"
check "(j) message moved intact under a real (unpinned) name" sh -c "
    test \$(ls '$W/dst/new' | wc -l) -eq 1 && cmp '$W/msg' '$W'/dst/new/* &&
    ! test -e '$W/dst/new/1000000000.4242_8.host:2,'"
check "(j) no log or other file was created" sh -c "
    test \"\$(cd '$W' && find . -type f | sort | tr '\n' ' ')\" = \
    \"./conf ./dst/new/\$(ls '$W/dst/new') ./err ./msg ./out \""
fresh j2
conf "stdin { match all move \"$W/dst\" }"
env HOME="$W" TMPDIR="$W/tmp" LD_PRELOAD="$SHIM" "$MDSORT" -f "$W/conf" - \
    <"$W/msg" >"$W/out" 2>"$W/err"
RC=$?
check "(j) stdin mode under bare preload delivers" sh -c "
    test $RC -eq 0 && cmp '$W/msg' '$W'/dst/new/*"
fresh j3
conf "maildir \"$W/src\" { match header \"To\" /user/ move \"$W/dst\" }"
env HOME="$W" TMPDIR="$W/tmp" LD_PRELOAD="$SHIM" VSHIM_LOG="$W/log" \
    "$MDSORT" -f "$W/conf" </dev/null >/dev/null 2>&1
check "(j) only VSHIM_LOG set: traced" sequential "$W/log"
check "(j) only VSHIM_LOG set: identity not pinned" \
    test ! -e "$W/dst/new/1000000000.4242_8.host:2,"

# ---------------------------------------------------------------- (k)

echo "--- (k) sweep: EIO, then kill, at every call index of a label+exec+move run"
fresh k
KCONF="maildir \"$W/src\" { match all label \"x\" exec stdin body { \"$HELPER\" } move \"$W/dst\" }"
conf "$KCONF"
mds VSHIM_LOG="$W/log" EXECHELPER_OUT="$W/eh" VSHIM_TMPNAMES=1 \
    VSHIM_DEVMAP="$W/dst"
N=$(wc -l <"$W/log" | tr -d ' ')
check "(k) clean run exits 0 with $N calls" test "$RC" -eq 0
bad=0; k=0
while [ "$k" -lt "$N" ]; do
	fresh k
	conf "$KCONF"
	mds VSHIM_LOG="$W/log" EXECHELPER_OUT="$W/eh" VSHIM_TMPNAMES=1 \
	    VSHIM_DEVMAP="$W/dst" VSHIM_FAIL="$k:EIO"
	# rewinddir cannot fail, so its index carries no FAULT mark
	if [ "$RC" -ge 128 ] || ! sequential "$W/log" ||
	    { ! grep -E -q "^$k [a-z]+ .*FAULT\$" "$W/log" &&
	      ! grep -E -q "^$k rewinddir " "$W/log"; }; then
		bad=$((bad + 1)); info "EIO at $k: rc=$RC"
	fi
	k=$((k + 1))
done
check "(k) $N single-fault runs: no crash, fault marked at its index" \
    test "$bad" -eq 0
bad=0; k=0
while [ "$k" -lt "$N" ]; do
	fresh k
	conf "$KCONF"
	(
		env HOME="$W" TMPDIR="$W/tmp" LD_PRELOAD="$SHIM" \
		    VSHIM_LOG="$W/log" VSHIM_TIME=1000000000 VSHIM_PID=4242 \
		    VSHIM_HOST=host VSHIM_RANDOM=7 EXECHELPER_OUT="$W/eh" \
		    VSHIM_TMPNAMES=1 VSHIM_DEVMAP="$W/dst" VSHIM_KILL="$k" \
		    "$MDSORT" -f "$W/conf" </dev/null >/dev/null 2>&1
		echo $? >"$W/rc"
	) 2>/dev/null
	if [ "$(cat "$W/rc")" -ne 137 ] ||
	    [ "$(wc -l <"$W/log")" -ne $((k + 1)) ] ||
	    ! tail -n 1 "$W/log" | grep -q "^$k KILLED-BEFORE "; then
		bad=$((bad + 1)); info "kill at $k: rc=$(cat "$W/rc")"
	fi
	k=$((k + 1))
done
check "(k) $N kill runs: SIGKILL each time, log has exactly k+1 lines" \
    test "$bad" -eq 0

# ---------------------------------------------------------------- (l)

echo "--- (l) VSHIM_FSIZE: kernel file size limit (reaches the write(2) of stdio)"
fresh l
# a message larger than the log will ever be small: 20000 bytes of body
awk 'BEGIN { printf "To: user@example.com\nSubject: big\n\n"; for (i = 0; i < 400; i++) printf "line %04d of the body, filling up to fifty chars..\n", i }' >"$W/src/new/1.host"
cp "$W/src/new/1.host" "$W/orig"
conf "maildir \"$W/src\" { match all label \"x\" exec stdin { \"$HELPER\" } }"
mds VSHIM_LOG="$W/log" EXECHELPER_OUT="$W/eh" VSHIM_TMPNAMES=1 VSHIM_FSIZE=5000
check "(l) limit inside the rewritten file: mdsort reports the failure" sh -c "
    test $RC -ne 0 && grep -q 'File too large' '$W/err'"
check "(l) original untouched, no truncated file left" sh -c "
    test \$(ls '$W/src/new' | wc -l) -eq 1 && cmp '$W/orig' '$W'/src/new/*"
check "(l) the log itself is not subject to the limit: sequential" sequential "$W/log"
check "(l) the log itself is not subject to the limit: ends with the last close" sh -c "
    test \$(wc -c <'$W/log') -gt 500 && tail -n 1 '$W/log' | grep -q ' = '"
fresh l2
cp "$T/l/orig" "$W/src/new/1.host"
conf "maildir \"$W/src\" { match all exec stdin { \"$HELPER\" } }"
mds VSHIM_LOG="$W/log" EXECHELPER_OUT="$W/eh" VSHIM_TMPNAMES=1 VSHIM_FSIZE=100
check "(l) the forked command runs without the limit (record of 40000+ bytes written)" sh -c "
    test $RC -eq 0 && test \$(wc -c <'$W/eh') -gt 40000"

# ---------------------------------------------------------------- summary

echo "--- $npass passed, $nfail failed"
[ "$nfail" -eq 0 ]
