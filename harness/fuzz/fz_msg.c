/* libFuzzer target for C07: the real message parser, MIME code, decoders, evaluator, interpolation,
 * dry-run rendering and message_write, in process, under ASan+UBSan.  The configuration battery is
 * parsed once (FZ_CONF); every input is one message file.  Supportive only: it searches for failing
 * inputs and supplies coverage-increasing inputs to the model/implementation comparison. */
#include "config.h"
#include <sys/stat.h>
#include <err.h>
#include <fcntl.h>
#include <limits.h>
#include <stdint.h>
#include <stdio.h>
#include <stdlib.h>
#include <string.h>
#include <unistd.h>
#include "extern.h"
#include "conf.h"
#include "message.h"
#include "vector.h"

static char tdir[PATH_MAX], dirpath[PATH_MAX], confpath[PATH_MAX];
static struct config_list cl;
static struct environment env;
static int dirfd_, nullfd;
static FILE *nullout;

static void cleanup(void) {
	char cmd[PATH_MAX + 16];
	snprintf(cmd, sizeof(cmd), "rm -rf '%s'", tdir);
	if (system(cmd)) {}
}

int LLVMFuzzerInitialize(int *argc, char ***argv) {
	const char *base = getenv("HARNESS_TMP"), *conf = getenv("FZ_CONF");
	char p[PATH_MAX * 2];
	(void)argc; (void)argv;
	snprintf(tdir, sizeof(tdir), "%s/fzXXXXXX", base ? base : "/var/tmp");
	if (mkdtemp(tdir) == NULL) err(1, "mkdtemp");
	atexit(cleanup);
	snprintf(p, sizeof(p), "%s/md", tdir); mkdir(p, 0700);
	snprintf(p, sizeof(p), "%s/md/new", tdir); mkdir(p, 0700);
	snprintf(dirpath, sizeof(dirpath), "%s/md/cur", tdir); mkdir(dirpath, 0700);
	setenv("TZ", "UTC", 1);
	tzset();
	memset(&env, 0, sizeof(env));
	strlcpy(env.ev_home, tdir, sizeof(env.ev_home));
	strlcpy(env.ev_tmpdir, tdir, sizeof(env.ev_tmpdir));
	strlcpy(env.ev_hostname, "host", sizeof(env.ev_hostname));
	snprintf(confpath, sizeof(confpath), "%s", conf ? conf : "battery.conf");
	env.ev_confpath = confpath;
	env.ev_tz.t_state = TZ_STATE_SET;
	strlcpy(env.ev_tz.t_buf, "UTC", sizeof(env.ev_tz.t_buf));
	env.ev_now = 1790000000;
	env.ev_pid = 4242;
	env.ev_options |= OPTION_DRYRUN;
	log_level = 1;
	config_init(&cl);
	if (config_parse(&cl, confpath, &env) || VECTOR_LENGTH(cl.cl_list) == 0) errx(1, "battery does not parse: %s", confpath);
	dirfd_ = open(dirpath, O_RDONLY | O_DIRECTORY);
	nullfd = open("/dev/null", O_WRONLY);
	nullout = fopen("/dev/null", "w");
	if (dirfd_ == -1 || nullfd == -1 || nullout == NULL) err(1, "open");
	return 0;
}

int LLVMFuzzerTestOneInput(const uint8_t *data, size_t size) {
	static const char *names[] = { "1.host:2,S", "2.host", "3.host:2,FRS", "4.host:2,abcXYZ" };
	struct message *msg;
	const char *name;
	char fpath[PATH_MAX * 2];
	size_t i;
	FILE *f, *save;

	name = names[size % 4];
	snprintf(fpath, sizeof(fpath), "%s/%s", dirpath, name);
	f = fopen(fpath, "w");
	if (f == NULL) err(1, "%s", fpath);
	if (size) fwrite(data, 1, size, f);
	fclose(f);
	msg = message_parse(dirpath, dirfd_, name);
	if (msg != NULL) {
		for (i = 0; i < VECTOR_LENGTH(cl.cl_list); i++) {
			struct match_list matches;
			struct expr_eval_arg ea;
			TAILQ_INIT(&matches);
			ea.ea_ml = &matches; ea.ea_msg = msg; ea.ea_env = &env;
			if (expr_eval(cl.cl_list[i].expr, &ea) == EXPR_MATCH && matches_interpolate(&matches) == 0) {
				fflush(stdout);
				save = stdout; stdout = nullout;
				(void)matches_inspect(&matches, &env);
				fflush(nullout);
				stdout = save;
			}
			matches_clear(&matches);
		}
		(void)message_get_body(msg);
		message_set_header(msg, "X-Label", strdup("fz"));
		(void)message_write(msg, nullfd);
		(void)message_get_header1(msg, "subject");
		message_free(msg);
	}
	unlink(fpath);
	return 0;
}
