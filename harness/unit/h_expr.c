/* Unit harness for the evaluator: real parser (config_parse), real expr_eval,
 * matches_interpolate, matches_inspect.  Every request runs in a forked child so
 * that parser globals start fresh and a crash is reported as a FAULT line. */
#include "config.h"	/* first, as in every module: it selects the feature-test macros the system headers obey */
#include <errno.h>
#include <signal.h>
#include <unistd.h>
#include <sys/resource.h>
#include <sys/wait.h>
#include "message.c"
#include "maildir.c"
#include "time.c"
#include "match.c"
#include "expr.c"
/*
 * Injectable outcomes of the commands run by `command` conditions (and exec actions): util.c's exec() is compiled as it
 * is - its fork, dup2, waitpid and status mapping run for real - but a program named "vstatus:..." is not looked up by
 * execvp(3); the child ends, or the call fails, as the name says:
 *
 *   vstatus:exit:N     the program runs and exits with status N (0..255)
 *   vstatus:signal:N   the program runs and is killed by signal N (no core file)
 *   vstatus:errno:E    execvp fails with errno E (ENOENT, EACCES, ENOTDIR, ENOEXEC, ELOOP, ENOMEM, E2BIG, ETXTBSY)
 *   vstatus:fork       fork fails with EAGAIN
 *   vstatus:waitpid    the child runs and exits 0 but waitpid fails with ECHILD
 *
 * Every other name goes to the real execvp (true, false, a missing program).  The model side (Driver/Main.lean
 * `commandOracle`) derives the value of exec() for these names from Model.execStatus.
 */
static int hx_forkfail, hx_waitfail;
static pid_t hx_fork(void);
static pid_t hx_waitpid(pid_t, int *, int);
static int hx_execvp(const char *, char *const []);
#define exec hx_util_exec
#define fork hx_fork
#define waitpid hx_waitpid
#define execvp hx_execvp
#include "util.c"
#undef exec
#undef fork
#undef waitpid
#undef execvp

static pid_t hx_fork(void) {
	if (hx_forkfail) { errno = EAGAIN; return -1; }
	return fork();
}

static pid_t hx_waitpid(pid_t pid, int *status, int options) {
	pid_t r = waitpid(pid, status, options);
	if (hx_waitfail) { errno = ECHILD; return -1; }
	return r;
}

static int hx_execvp(const char *file, char *const argv[]) {
	static const struct { const char *name; int no; } errs[] = {
		{ "ENOENT", ENOENT }, { "EACCES", EACCES }, { "ENOTDIR", ENOTDIR }, { "ENOEXEC", ENOEXEC }, { "ELOOP", ELOOP },
		{ "ENOMEM", ENOMEM }, { "E2BIG", E2BIG }, { "ETXTBSY", ETXTBSY },
	};
	size_t i;
	if (strncmp(file, "vstatus:", 8) != 0)
		return execvp(file, argv);
	file += 8;
	if (strncmp(file, "exit:", 5) == 0)
		_exit(atoi(file + 5));
	if (strncmp(file, "signal:", 7) == 0) {
		struct rlimit rl = { 0, 0 };
		int sig = atoi(file + 7);
		setrlimit(RLIMIT_CORE, &rl);
		signal(sig, SIG_DFL);
		kill(getpid(), sig);
		_exit(98);	/* the signal did not terminate the process */
	}
	if (strncmp(file, "errno:", 6) == 0) {
		for (i = 0; i < sizeof(errs) / sizeof(errs[0]); i++)
			if (strcmp(file + 6, errs[i].name) == 0) { errno = errs[i].no; return -1; }
	}
	if (strcmp(file, "fork") == 0 || strcmp(file, "waitpid") == 0)
		_exit(0);
	errno = ENOENT;
	return -1;
}

int exec(char *const *argv, int fdin) {
	int r;
	hx_forkfail = argv[0] != NULL && strcmp(argv[0], "vstatus:fork") == 0;
	hx_waitfail = argv[0] != NULL && strcmp(argv[0], "vstatus:waitpid") == 0;
	r = hx_util_exec(argv, fdin);
	hx_forkfail = hx_waitfail = 0;
	return r;
}
#include "macro.c"
#include "conf.h"
#include "proto.h"
#include <locale.h>
#include <sys/stat.h>
#include <sys/wait.h>

static char tdir[PATH_MAX];

static void hexs(FILE *o, const char *s) { puthex(o, s, strlen(s)); }

static void dump_strings(FILE *o, const struct string_list *sl) {
	const struct string *s;
	fprintf(o, " %zu", strings_len(sl));
	TAILQ_FOREACH(s, sl, entry) { fputc(' ', o); hexs(o, s->val); }
}

static void dump_pat(FILE *o, const struct expr *ex) {
	/* the pattern source is not kept by mdsort: the caller knows it */
	fputs(" ? ", o);
	if (ex->ex_re.flags & EXPR_PATTERN_LCASE) fputc('l', o);
	if (ex->ex_re.flags & EXPR_PATTERN_UCASE) fputc('u', o);
	fputc('.', o);
}

static void dump_expr(FILE *o, const struct expr *ex) {
	if (ex == NULL) { fputs(" NULL", o); return; }
	switch (ex->ex_type) {
	case EXPR_TYPE_BLOCK: fprintf(o, " block %u", ex->ex_lno); dump_expr(o, ex->ex_lhs); break;
	case EXPR_TYPE_AND: fprintf(o, " and %u", ex->ex_lno); dump_expr(o, ex->ex_lhs); dump_expr(o, ex->ex_rhs); break;
	case EXPR_TYPE_OR: fprintf(o, " or %u", ex->ex_lno); dump_expr(o, ex->ex_lhs); dump_expr(o, ex->ex_rhs); break;
	case EXPR_TYPE_NEG: fprintf(o, " neg %u", ex->ex_lno); dump_expr(o, ex->ex_lhs); break;
	case EXPR_TYPE_MATCH: fprintf(o, " match %u", ex->ex_lno); dump_expr(o, ex->ex_lhs); dump_expr(o, ex->ex_rhs); break;
	case EXPR_TYPE_ALL: fprintf(o, " all %u", ex->ex_lno); break;
	case EXPR_TYPE_ATTACHMENT: fprintf(o, " attachment %u", ex->ex_lno); dump_expr(o, ex->ex_lhs); break;
	case EXPR_TYPE_BODY: fprintf(o, " body %u", ex->ex_lno); dump_pat(o, ex); break;
	case EXPR_TYPE_DATE:
		fprintf(o, " date %u %c %c %lld", ex->ex_lno,
		    "hamc"[ex->ex_date.field], ex->ex_date.cmp == EXPR_DATE_CMP_LT ? '<' : '>', (long long)ex->ex_date.age);
		break;
	case EXPR_TYPE_HEADER: fprintf(o, " header %u", ex->ex_lno); dump_strings(o, ex->ex_strings); dump_pat(o, ex); break;
	case EXPR_TYPE_NEW: fprintf(o, " new %u", ex->ex_lno); break;
	case EXPR_TYPE_OLD: fprintf(o, " old %u", ex->ex_lno); break;
	case EXPR_TYPE_STAT: fprintf(o, " stat %u ", ex->ex_lno); hexs(o, TAILQ_FIRST(ex->ex_strings)->val); break;
	case EXPR_TYPE_COMMAND: fprintf(o, " command %u", ex->ex_lno); dump_strings(o, ex->ex_strings); break;
	case EXPR_TYPE_MOVE: fprintf(o, " move %u ", ex->ex_lno); hexs(o, TAILQ_FIRST(ex->ex_strings)->val); break;
	case EXPR_TYPE_FLAG: fprintf(o, " flag %u ", ex->ex_lno); hexs(o, TAILQ_FIRST(ex->ex_strings)->val); break;
	case EXPR_TYPE_FLAGS: fprintf(o, " flags %u ", ex->ex_lno); hexs(o, TAILQ_FIRST(ex->ex_strings)->val); break;
	case EXPR_TYPE_DISCARD: fprintf(o, " discard %u", ex->ex_lno); break;
	case EXPR_TYPE_BREAK: fprintf(o, " break %u", ex->ex_lno); break;
	case EXPR_TYPE_LABEL: fprintf(o, " label %u", ex->ex_lno); dump_strings(o, ex->ex_strings); break;
	case EXPR_TYPE_PASS: fprintf(o, " pass %u", ex->ex_lno); break;
	case EXPR_TYPE_REJECT: fprintf(o, " reject %u", ex->ex_lno); break;
	case EXPR_TYPE_EXEC:
		fprintf(o, " exec %u %d %d", ex->ex_lno, !!(ex->ex_exec.flags & EXPR_EXEC_STDIN), !!(ex->ex_exec.flags & EXPR_EXEC_BODY));
		dump_strings(o, ex->ex_strings);
		break;
	case EXPR_TYPE_ATTACHMENT_BLOCK: fprintf(o, " attblock %u", ex->ex_lno); dump_expr(o, ex->ex_lhs); break;
	case EXPR_TYPE_ADD_HEADER:
		fprintf(o, " addheader %u ", ex->ex_lno); hexs(o, ex->ex_add_header.key); fputc(' ', o); hexs(o, ex->ex_add_header.val);
		break;
	}
}

static const char *tyname(enum expr_type t) {
	switch (t) {
	case EXPR_TYPE_MATCH: return "match"; case EXPR_TYPE_BODY: return "body"; case EXPR_TYPE_DATE: return "date";
	case EXPR_TYPE_HEADER: return "header"; case EXPR_TYPE_STAT: return "stat"; case EXPR_TYPE_COMMAND: return "command";
	case EXPR_TYPE_MOVE: return "move"; case EXPR_TYPE_FLAG: return "flag"; case EXPR_TYPE_FLAGS: return "flags";
	case EXPR_TYPE_DISCARD: return "discard"; case EXPR_TYPE_BREAK: return "break"; case EXPR_TYPE_LABEL: return "label";
	case EXPR_TYPE_PASS: return "pass"; case EXPR_TYPE_REJECT: return "reject"; case EXPR_TYPE_EXEC: return "exec";
	case EXPR_TYPE_ATTACHMENT_BLOCK: return "attachment_block"; case EXPR_TYPE_ADD_HEADER: return "add_header";
	default: return "other";
	}
}

static void dump_ml(FILE *o, const struct match_list *ml, const struct message *root) {
	const struct match *mh;
	int first = 1;
	TAILQ_FOREACH(mh, ml, mh_entry) {
		size_t i;
		long part = -1;
		if (mh->mh_msg == root) part = 0;
		else if (root->me_attachments != NULL && mh->mh_msg >= root->me_attachments &&
		    mh->mh_msg < root->me_attachments + VECTOR_LENGTH(root->me_attachments))
			part = (mh->mh_msg - root->me_attachments) + 1;
		if (!first) fputc(';', o);
		first = 0;
		fprintf(o, "%s,%u,%ld,", tyname(mh->mh_expr->ex_type), mh->mh_expr->ex_lno, part);
		hexs(o, mh->mh_path); fputc(',', o); hexs(o, mh->mh_maildir); fputc(',', o); hexs(o, mh->mh_subdir); fputc(',', o);
		for (i = 0; i < mh->mh_nmatches; i++) {
			if (i) fputc('+', o);
			hexs(o, mh->mh_matches[i].m_str);
			if (mh->mh_matches[i].m_beg == (size_t)-1) fputs("/-/-", o);
			else fprintf(o, "/%zu/%zu", mh->mh_matches[i].m_beg, mh->mh_matches[i].m_end);
		}
		fputc(',', o);
		for (i = 0; i + 1 < mh->mh_nexec || (i < mh->mh_nexec && mh->mh_exec[i] != NULL); i++) {
			if (mh->mh_exec[i] == NULL) break;
			if (i) fputc('+', o);
			hexs(o, mh->mh_exec[i]);
		}
		fputc(',', o);
		if (mh->mh_key) hexs(o, mh->mh_key); else fputc('~', o);
		fputc(',', o);
		if (mh->mh_val) hexs(o, mh->mh_val); else fputc('~', o);
	}
}

static void dump_table(FILE *out, const struct message *msg) {
	size_t i;
	for (i = 0; i < VECTOR_LENGTH(msg->me_headers); i++) {
		const struct header *h = &msg->me_headers[i];
		fprintf(out, "%u:", h->id);
		puthex(out, h->key, strlen(h->key)); fputc(':', out);
		puthex(out, h->val, strlen(h->val)); fputc(',', out);
	}
	fputc('|', out);
	puthex(out, msg->me_body, strlen(msg->me_body));
}

static void writefile(const char *path, const struct arg *a) {
	FILE *f = fopen(path, "w");
	if (f == NULL) err(1, "harness: %s", path);
	if (a->n) fwrite(a->p, 1, a->n, f);
	fclose(f);
}

/* eval <conf> <msg> <subdir> <filename> <dryrun> <now> [<TZ>]
 * -> AST <dump> RES <tri> <ml> <flags> [<ml after interpolation> <table> [<dry-run output hex>]] */
static void op_eval(struct arg *a, int n, FILE *out) {
	struct config_list cl;
	struct environment env;
	struct match_list matches;
	struct message *msg;
	struct expr_eval_arg ea;
	char confpath[PATH_MAX], dirpath[PATH_MAX], fpath[PATH_MAX * 2], fl[64];
	struct tm *tm;
	int dirfd, ev, dry;

	dry = a[4].p[0] == '1';
	snprintf(confpath, sizeof(confpath), "%s/conf", tdir);
	writefile(confpath, &a[0]);
	setenv("TZ", n > 6 ? (const char *)a[6].p : "UTC", 1);
	tzset();
	memset(&env, 0, sizeof(env));
	strlcpy(env.ev_home, tdir, sizeof(env.ev_home));
	strlcpy(env.ev_tmpdir, tdir, sizeof(env.ev_tmpdir));
	strlcpy(env.ev_hostname, "host", sizeof(env.ev_hostname));
	env.ev_confpath = confpath;
	env.ev_tz.t_state = TZ_STATE_SET;
	strlcpy(env.ev_tz.t_buf, getenv("TZ"), sizeof(env.ev_tz.t_buf));
	env.ev_now = (time_t)strtoll((const char *)a[5].p, NULL, 10);
	tm = localtime(&env.ev_now);
	env.ev_tz.t_offset = tm ? tm->tm_gmtoff : 0;
	env.ev_pid = 4242;
	if (dry) { env.ev_options |= OPTION_DRYRUN; log_level = 1; }

	config_init(&cl);
	if (config_parse(&cl, confpath, &env) || VECTOR_LENGTH(cl.cl_list) == 0) { fputs("CONFERR", out); return; }
	snprintf(dirpath, sizeof(dirpath), "%s/%s", tdir, (const char *)a[2].p);
	snprintf(fpath, sizeof(fpath), "%s/%s", dirpath, (const char *)a[3].p);
	{
		/* <subdir> may name any directory below the scratch directory (a maildir called like template syntax): create what is missing */
		char *q;
		for (q = dirpath + strlen(tdir) + 1; (q = strchr(q, '/')) != NULL; q++) { *q = '\0'; (void)mkdir(dirpath, 0700); *q = '/'; }
		(void)mkdir(dirpath, 0700);
	}
	fputs("PATH ", out); hexs(out, fpath);
	fputs(" AST", out);
	dump_expr(out, cl.cl_list[0].expr);
	writefile(fpath, &a[1]);
	if (n > 7) {
		/* <mtime>: give the file an old modification time (and an older access time; the change time is "now") */
		struct timespec ts[2];
		ts[1].tv_sec = (time_t)strtoll((const char *)a[7].p, NULL, 10); ts[1].tv_nsec = 0;
		ts[0].tv_sec = ts[1].tv_sec - 7 * 86400; ts[0].tv_nsec = 0;
		utimensat(AT_FDCWD, fpath, ts, 0);
	}
	dirfd = open(dirpath, O_RDONLY | O_DIRECTORY);
	msg = message_parse(dirpath, dirfd, (const char *)a[3].p);
	if (msg == NULL) { fputs(" RES PARSEERR", out); unlink(fpath); return; }

	TAILQ_INIT(&matches);
	ea.ea_ml = &matches; ea.ea_msg = msg; ea.ea_env = &env;
	ev = expr_eval(cl.cl_list[0].expr, &ea);
	fprintf(out, " RES %s ", ev == EXPR_MATCH ? "MATCH" : ev == EXPR_NOMATCH ? "NOMATCH" : "ERROR");
	dump_ml(out, &matches, msg);
	fputc(' ', out);
	if (message_flags_str(message_get_flags(msg), fl, sizeof(fl)) != NULL) hexs(out, fl); else fputc('~', out);
	if (ev == EXPR_MATCH) {
		if (matches_interpolate(&matches)) {
			fputs(" INTERR", out);
		} else {
			fputc(' ', out);
			dump_ml(out, &matches, msg);
			fputc(' ', out);
			dump_table(out, msg);
			if (dry) {
				char *buf = NULL; size_t len = 0;
				FILE *mem = open_memstream(&buf, &len), *save = stdout;
				fflush(stdout);
				stdout = mem;
				(void)matches_inspect(&matches, &env);
				fflush(mem);
				stdout = save;
				fclose(mem);
				fputc(' ', out);
				puthex(out, buf, len);
				free(buf);
			}
		}
	}
	if (n > 7) {
		/* what stat() says about the file now (the evaluator's stat came after the parse as well) and how the real
		 * time_format() prints each: TIMES <atime> <mtime> <ctime> <hex fmt a> <hex fmt m> <hex fmt c> */
		struct stat sb;
		char b[3][64];
		if (stat(fpath, &sb) == 0) {
			fprintf(out, " TIMES %lld %lld %lld ", (long long)sb.st_atim.tv_sec, (long long)sb.st_mtim.tv_sec, (long long)sb.st_ctim.tv_sec);
			hexs(out, time_format(sb.st_atim.tv_sec, b[0], sizeof(b[0])) ? b[0] : "");
			fputc(' ', out);
			hexs(out, time_format(sb.st_mtim.tv_sec, b[1], sizeof(b[1])) ? b[1] : "");
			fputc(' ', out);
			hexs(out, time_format(sb.st_ctim.tv_sec, b[2], sizeof(b[2])) ? b[2] : "");
		}
	}
	unlink(fpath);
}

/* inspect <home> <confpath> <key> <val> <lno> <subs: beg/end+beg/end..., x/x for an unset group>
 * -> hex of what the real expr_inspect() prints for a header entry with these sub-matches (locale: LC_CTYPE of the environment) */
static void op_inspect(struct arg *a, int n, FILE *out) {
	struct environment env;
	struct expr ex;
	struct match mh;
	char *buf = NULL, *tok, *save = NULL;
	size_t len = 0, cap = 0;
	FILE *mem, *savefh;
	(void)n;
	memset(&env, 0, sizeof(env));
	memset(&ex, 0, sizeof(ex));
	memset(&mh, 0, sizeof(mh));
	strlcpy(env.ev_home, (const char *)a[0].p, sizeof(env.ev_home));
	env.ev_confpath = (const char *)a[1].p;
	env.ev_options = OPTION_DRYRUN;
	ex.ex_type = EXPR_TYPE_HEADER;
	ex.ex_flags = EXPR_FLAG_INSPECT;
	ex.ex_lno = (unsigned int)strtoul((const char *)a[4].p, NULL, 10);
	mh.mh_expr = &ex;
	mh.mh_key = (char *)a[2].p;
	mh.mh_val = (char *)a[3].p;
	for (tok = strtok_r((char *)a[5].p, "+", &save); tok != NULL; tok = strtok_r(NULL, "+", &save)) {
		char *sl = strchr(tok, '/');
		if (sl == NULL) { fputs("BADOP", out); return; }
		if (mh.mh_nmatches == cap) {
			cap = cap ? 2 * cap : 4;
			mh.mh_matches = realloc(mh.mh_matches, cap * sizeof(*mh.mh_matches));
		}
		mh.mh_matches[mh.mh_nmatches].m_str = NULL;
		if (tok[0] == 'x') {
			mh.mh_matches[mh.mh_nmatches].m_beg = (size_t)-1;
			mh.mh_matches[mh.mh_nmatches].m_end = (size_t)-1;
		} else {
			mh.mh_matches[mh.mh_nmatches].m_beg = (size_t)strtoul(tok, NULL, 10);
			mh.mh_matches[mh.mh_nmatches].m_end = (size_t)strtoul(sl + 1, NULL, 10);
		}
		mh.mh_nmatches++;
	}
	mem = open_memstream(&buf, &len);
	savefh = stdout;
	fflush(stdout);
	stdout = mem;
	expr_inspect(&ex, &mh, &env);
	fflush(mem);
	stdout = savefh;
	fclose(mem);
	puthex(out, buf, len);
	free(buf);
	free(mh.mh_matches);
}

/* ast <conf> <home>: every block of the configuration as the real parser built it */
static void op_ast(struct arg *a, int n, FILE *out) {
	struct config_list cl;
	struct environment env;
	char confpath[PATH_MAX];
	size_t i;
	(void)n;
	snprintf(confpath, sizeof(confpath), "%s/conf", tdir);
	writefile(confpath, &a[0]);
	memset(&env, 0, sizeof(env));
	strlcpy(env.ev_home, (const char *)a[1].p, sizeof(env.ev_home));
	strlcpy(env.ev_tmpdir, tdir, sizeof(env.ev_tmpdir));
	env.ev_confpath = confpath;
	config_init(&cl);
	if (config_parse(&cl, confpath, &env)) { fputs("CONFERR", out); return; }
	fputs("BLOCKS", out);
	for (i = 0; i < VECTOR_LENGTH(cl.cl_list); i++) {
		const struct string *s;
		fprintf(out, " B %zu", strings_len(cl.cl_list[i].paths));
		TAILQ_FOREACH(s, cl.cl_list[i].paths, entry) { fputc(' ', out); hexs(out, s->val); }
		dump_expr(out, cl.cl_list[i].expr);
		fputs(" ;", out);
	}
}

/* small pure functions: time.c, flags, paths */
static void op_small(const char *op, struct arg *a, int n, FILE *out) {
#ifndef HARNESS_NO_STATICS
	if (strcmp(op, "tzoff") == 0 && n == 1) {
		time_t tz = 0;
		if (tzoff((const char *)a[0].p, &tz)) fputs("NONE", out); else fprintf(out, "OK %lld", (long long)tz);
	} else if (strcmp(op, "timeparse") == 0 && n == 1) {
		/* timeparse <string>: timeparse() of time.c (the loop over formats[]) after the memset of time_parse() */
		struct tm tm;
		const char *end;
		memset(&tm, 0, sizeof(tm));
		end = timeparse((const char *)a[0].p, &tm);
		if (end == NULL) fputs("NONE", out);
		else fprintf(out, "OK %ld %d %d %d %d %d %d", (long)(end - (const char *)a[0].p), tm.tm_year + 1900, tm.tm_mon, tm.tm_mday,
		    tm.tm_hour, tm.tm_min, tm.tm_sec);
	} else
#endif
	if (strcmp(op, "strp") == 0 && n == 2) {
		/* strp <format> <string>: the platform's strptime on a zeroed struct tm */
		struct tm tm;
		const char *end;
		memset(&tm, 0, sizeof(tm));
		end = strptime((const char *)a[1].p, (const char *)a[0].p, &tm);
		if (end == NULL) fputs("NONE", out);
		else fprintf(out, "OK %ld %d %d %d %d %d %d", (long)(end - (const char *)a[1].p), tm.tm_year + 1900, tm.tm_mon, tm.tm_mday,
		    tm.tm_hour, tm.tm_min, tm.tm_sec);
	} else if ((strcmp(op, "tparse") == 0 || strcmp(op, "tparsec") == 0) && n >= 2) {
		/* tparse <date> <now> [<TZ> | ~ for unset] */
		struct environment env;
		struct tm *tm;
		time_t res = 0;
		memset(&env, 0, sizeof(env));
		if (n > 2 && !(a[2].n == 1 && a[2].p[0] == '~')) {
			setenv("TZ", (const char *)a[2].p, 1);
			env.ev_tz.t_state = a[2].n ? TZ_STATE_SET : TZ_STATE_UTC;
			strlcpy(env.ev_tz.t_buf, (const char *)a[2].p, sizeof(env.ev_tz.t_buf));
		} else {
			unsetenv("TZ");
			env.ev_tz.t_state = TZ_STATE_LOCAL;
		}
		tzset();
		env.ev_now = (time_t)strtoll((const char *)a[1].p, NULL, 10);
		tm = localtime(&env.ev_now);
		env.ev_tz.t_offset = tm ? tm->tm_gmtoff : 0;
		if (time_parse((const char *)a[0].p, &res, &env)) fputs("NONE", out); else fprintf(out, "OK %lld", (long long)res);
	} else if (strcmp(op, "tzrestore") == 0 && n == 3) {
		/* tzrestore <date> <now> <TZ | ~ for unset>: what time_parse leaves behind.
		 * -> <OK t | NONE> TZ=<hex | ~> OFF=<tm_gmtoff of now after the call> WAS=<tm_gmtoff of now before the call> */
		struct environment env;
		struct tm *tm;
		const char *after;
		time_t res = 0;
		long was;
		memset(&env, 0, sizeof(env));
		if (!(a[2].n == 1 && a[2].p[0] == '~')) {
			setenv("TZ", (const char *)a[2].p, 1);
			env.ev_tz.t_state = a[2].n ? TZ_STATE_SET : TZ_STATE_UTC;
			strlcpy(env.ev_tz.t_buf, (const char *)a[2].p, sizeof(env.ev_tz.t_buf));
		} else {
			unsetenv("TZ");
			env.ev_tz.t_state = TZ_STATE_LOCAL;
		}
		tzset();
		env.ev_now = (time_t)strtoll((const char *)a[1].p, NULL, 10);
		tm = localtime(&env.ev_now);
		env.ev_tz.t_offset = tm ? tm->tm_gmtoff : 0;
		was = env.ev_tz.t_offset;
		if (time_parse((const char *)a[0].p, &res, &env)) fputs("NONE", out); else fprintf(out, "OK %lld", (long long)res);
		after = getenv("TZ");
		fputs(" TZ=", out);
		if (after == NULL) fputs("~", out); else hexs(out, after);
		tm = localtime(&env.ev_now);		/* no tzset() here: the zone mdsort itself would go on with */
		fprintf(out, " OFF=%ld WAS=%ld", tm ? (long)tm->tm_gmtoff : -1L, was);
	} else if (strcmp(op, "flagsp") == 0 && n == 1) {
		struct message_flags mf = { 0, 0 };
		if (message_flags_parse(&mf, (const char *)a[0].p)) fputs("NONE", out); else fprintf(out, "OK %u %u", mf.mf_upper, mf.mf_lower);
	} else if (strcmp(op, "flagss") == 0 && n == 3) {
		/* flagss <upper dec> <lower dec> <bufsiz dec> */
		struct message_flags mf;
		char buf[256];
		size_t siz = (size_t)strtoul((const char *)a[2].p, NULL, 10);
		mf.mf_upper = (unsigned)strtoul((const char *)a[0].p, NULL, 10);
		mf.mf_lower = (unsigned)strtoul((const char *)a[1].p, NULL, 10);
		if (siz > sizeof(buf)) siz = sizeof(buf);
		if (message_flags_str(&mf, buf, siz) == NULL) fputs("NONE", out); else { fputs("OK ", out); hexs(out, buf); }
	} else if (strcmp(op, "msgflags") == 0 && n == 4) {
		/* msgflags <src n|c> <dst n|c> <upper> <lower> */
		struct maildir src, dst;
		struct message m;
		char buf[FLAGS_MAX];
		memset(&src, 0, sizeof(src)); memset(&dst, 0, sizeof(dst)); memset(&m, 0, sizeof(m));
		src.md_subdir = a[0].p[0] == 'n' ? SUBDIR_NEW : SUBDIR_CUR;
		dst.md_subdir = a[1].p[0] == 'n' ? SUBDIR_NEW : SUBDIR_CUR;
		m.me_mflags.mf_upper = (unsigned)strtoul((const char *)a[2].p, NULL, 10);
		m.me_mflags.mf_lower = (unsigned)strtoul((const char *)a[3].p, NULL, 10);
		if (msgflags(&src, &dst, &m, buf, sizeof(buf))) fputs("NONE", out); else { fputs("OK ", out); hexs(out, buf); }
	} else if (strcmp(op, "pslice") == 0 && n == 4) {
		/* pslice <path> <bufsiz> <beg> <end> */
		char *buf;
		size_t siz = (size_t)strtoul((const char *)a[1].p, NULL, 10);
		int beg = atoi((const char *)a[2].p), end = atoi((const char *)a[3].p);
		buf = malloc(siz ? siz : 1);
		if (pathslice((const char *)a[0].p, buf, siz, beg, end) == NULL) fputs("NONE", out); else { fputs("OK ", out); hexs(out, buf); }
		free(buf);
	} else if (strcmp(op, "pjoin") == 0 && n == 3) {
		char *buf;
		size_t siz = (size_t)strtoul((const char *)a[0].p, NULL, 10);
		buf = malloc(siz ? siz : 1);
		if (pathjoin(buf, siz, (const char *)a[1].p, (const char *)a[2].p) == NULL) fputs("NONE", out); else { fputs("OK ", out); hexs(out, buf); }
		free(buf);
	} else fputs("BADOP", out);
}

static void handle(const char *op, struct arg *a, int n, FILE *out) {
	if (strcmp(op, "eval") == 0 && n >= 6) op_eval(a, n, out);
	else if (strcmp(op, "ast") == 0 && n == 2) op_ast(a, n, out);
	else if (strcmp(op, "inspect") == 0 && n == 6) op_inspect(a, n, out);
	else if (strcmp(op, "eval") != 0) op_small(op, a, n, out);
	else fputs("BADOP", out);
}

int main(void) {
	const char *base = getenv("HARNESS_TMP");
	char p[PATH_MAX * 2];
	char *line = NULL;
	size_t cap = 0;
	snprintf(tdir, sizeof(tdir), "%s/heXXXXXX", base ? base : "/var/tmp");
	if (mkdtemp(tdir) == NULL) err(1, "mkdtemp");
	snprintf(p, sizeof(p), "%s/md", tdir); mkdir(p, 0700);
	snprintf(p, sizeof(p), "%s/md/new", tdir); mkdir(p, 0700);
	snprintf(p, sizeof(p), "%s/md/cur", tdir); mkdir(p, 0700);
	snprintf(p, sizeof(p), "%s/yes", tdir); mkdir(p, 0700);
	snprintf(p, sizeof(p), "%s/a:b", tdir); mkdir(p, 0700);
	snprintf(p, sizeof(p), "%s/a:b/new", tdir); mkdir(p, 0700);
	snprintf(p, sizeof(p), "%s/a:b/cur", tdir); mkdir(p, 0700);
	setlocale(LC_CTYPE, "");
	while (getline(&line, &cap, stdin) > 0) {
		pid_t pid;
		int status;
		fflush(stdout);
		pid = fork();
		if (pid == 0) {
			struct arg args[MAXARGS];
			char *op;
			int n = parse_req(line, &op, args);
			if (n < 0) fputs("BADREQ", stdout); else handle(op, args, n, stdout);
			fputc('\n', stdout);
			fflush(stdout);
			HARNESS_GCOV_DUMP();
			_exit(0);
		}
		waitpid(pid, &status, 0);
		if (WIFSIGNALED(status)) printf("\nFAULT signal %d\n", WTERMSIG(status));
		else if (WEXITSTATUS(status) != 0) printf("\nFAULT exit %d\n", WEXITSTATUS(status));
		fflush(stdout);
	}
	snprintf(p, sizeof(p), "rm -rf '%s'", tdir);
	return system(p) != 0;
}
