/* Unit harness for mdsort.c: includes the source (main renamed) to reach its static functions defaultconf() and readenv().
 * Both end the process through errc()/errx() when a value does not fit, so every request runs in a forked child.
 *
 * dconf <home>                 -> OK <hex of the path defaultconf(home) returns> | EXIT <status>
 * renv <HOME|~> <TMPDIR|~>     -> OK <hex ev_home> <hex ev_tmpdir> | EXIT <status>      (~ = variable unset; HOME and TMPDIR set as given)
 * renvz <HOME|~> <TMPDIR|~> <TZ|~> -> OK <hex ev_home> <hex ev_tmpdir> <t_state> <hex t_buf> <INTACT|CLOBBERED> | EXIT <status>
 *        readenv() with TZ as well.  What readenv() does not assign - the options of the command line and the configuration path,
 *        which main() has stored in the structure BEFORE it calls readenv() - is set to a pattern first and compared afterwards
 *        (a copy with a wrong bound inside the structure is invisible to ASan; past the structure it hits the red zone).
 */
#define main mdsort_main
#include "mdsort.c"
#undef main
#include "proto.h"
#include <fcntl.h>
#include <sys/wait.h>

static void handle(const char *op, struct arg *a, int n, FILE *out) {
	if (strcmp(op, "dconf") == 0 && n == 1) {
		const char *p = defaultconf((const char *)a[0].p);
		fputs("OK ", out); puthex(out, p, strlen(p));
	} else if (strcmp(op, "renv") == 0 && n == 2) {
		struct environment env;
		int i;
		for (i = 0; i < 2; i++) {
			const char *name = i == 0 ? "HOME" : "TMPDIR";
			if (a[i].n == 1 && a[i].p[0] == '~') unsetenv(name);
			else if (setenv(name, (const char *)a[i].p, 1) == -1) { fputs("ERR setenv", out); return; }
		}
		memset(&env, 0, sizeof(env));
		readenv(&env);
		fputs("OK ", out); puthex(out, env.ev_home, strlen(env.ev_home));
		fputc(' ', out); puthex(out, env.ev_tmpdir, strlen(env.ev_tmpdir));
	} else if (strcmp(op, "renvz") == 0 && n == 3) {
		static const char *names[3] = { "HOME", "TMPDIR", "TZ" };
		struct environment env;
		int i;
		for (i = 0; i < 3; i++) {
			if (a[i].n == 1 && a[i].p[0] == '~') unsetenv(names[i]);
			else if (setenv(names[i], (const char *)a[i].p, 1) == -1) { fputs("ERR setenv", out); return; }
		}
		memset(&env, 0, sizeof(env));
		env.ev_options = 0xa5a5a5a5u;
		env.ev_confpath = (const char *)names;
		readenv(&env);
		fputs("OK ", out); puthex(out, env.ev_home, strlen(env.ev_home));
		fputc(' ', out); puthex(out, env.ev_tmpdir, strlen(env.ev_tmpdir));
		fprintf(out, " %d ", (int)env.ev_tz.t_state);
		puthex(out, env.ev_tz.t_buf, strnlen(env.ev_tz.t_buf, sizeof(env.ev_tz.t_buf)));
		fputs(env.ev_options == 0xa5a5a5a5u && env.ev_confpath == (const char *)names ? " INTACT" : " CLOBBERED", out);
	} else fputs("BADOP", out);
}

int main(void) {
	char *line = NULL;
	size_t cap = 0;
	while (getline(&line, &cap, stdin) > 0) {
		pid_t pid;
		int status;
		fflush(stdout);
		pid = fork();
		if (pid == 0) {
			struct arg args[MAXARGS];
			char *op;
			int n, fd;
			/* the diagnostics of errc() are not part of the answer */
			fd = open("/dev/null", O_WRONLY);
			if (fd != -1) { dup2(fd, 2); close(fd); }
			n = parse_req(line, &op, args);
			if (n < 0) fputs("BADREQ", stdout); else handle(op, args, n, stdout);
			fflush(stdout);
			_exit(0);
		}
		if (pid == -1 || waitpid(pid, &status, 0) == -1) { puts("ERR fork"); continue; }
		if (WIFSIGNALED(status)) printf("FAULT signal %d\n", WTERMSIG(status));
		else if (WEXITSTATUS(status) == 99) printf("FAULT sanitizer exit 99\n");
		else if (WEXITSTATUS(status) != 0) printf("EXIT %d\n", WEXITSTATUS(status));
		else putchar('\n');
		fflush(stdout);
	}
	free(line);
	return 0;
}
