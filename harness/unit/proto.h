/* Line protocol helpers shared by the unit harnesses.
 * Request: "<op> <hexarg>*\n" ("-" is the empty string); response: one line. */
#ifndef VERIF_PROTO_H
#define VERIF_PROTO_H
#include <stdio.h>
#include <stdlib.h>
#include <string.h>

#ifndef MAXARGS
#define MAXARGS 64
#endif

/* Coverage measurement builds (tools/cov.py): a child that leaves through _exit() must write its counters itself. */
#ifdef VERIF_GCOV
extern void __gcov_dump(void);
#define HARNESS_GCOV_DUMP() __gcov_dump()
#else
#define HARNESS_GCOV_DUMP() ((void)0)
#endif

struct arg { unsigned char *p; size_t n; };

static int hv(int c) {
	if (c >= '0' && c <= '9') return c - '0';
	if (c >= 'a' && c <= 'f') return c - 'a' + 10;
	return -1;
}

/* Decodes into a fresh NUL-terminated buffer (the NUL is not counted in n). */
static int unhex(const char *s, size_t len, struct arg *a) {
	size_t i;
	if (len == 1 && s[0] == '-') { a->p = calloc(1, 1); a->n = 0; return 0; }
	if (len % 2) return -1;
	a->p = malloc(len / 2 + 1);
	a->n = len / 2;
	for (i = 0; i < len / 2; i++) {
		int h = hv(s[2*i]), l = hv(s[2*i+1]);
		if (h < 0 || l < 0) return -1;
		a->p[i] = (unsigned char)(h << 4 | l);
	}
	a->p[a->n] = 0;
	return 0;
}

static void puthex(FILE *f, const void *vp, size_t n) {
	const unsigned char *p = vp;
	size_t i;
	if (n == 0) { fputc('-', f); return; }
	for (i = 0; i < n; i++) fprintf(f, "%02x", p[i]);
}

/* Splits a request line in place. Returns number of args, op in *op. */
static int parse_req(char *line, char **op, struct arg *args) {
	int n = 0;
	char *save = NULL, *tok;
	size_t l = strlen(line);
	while (l > 0 && (line[l-1] == '\n' || line[l-1] == '\r')) line[--l] = 0;
	tok = strtok_r(line, " ", &save);
	if (tok == NULL) return -1;
	*op = tok;
	while ((tok = strtok_r(NULL, " ", &save)) != NULL) {
		if (n >= MAXARGS) return -1;
		if (unhex(tok, strlen(tok), &args[n])) return -1;
		n++;
	}
	return n;
}

static void free_args(struct arg *args, int n) {
	int i;
	for (i = 0; i < n; i++) free(args[i].p);
}

typedef void (*handler_fn)(const char *op, struct arg *args, int nargs, FILE *out);

static int serve(handler_fn h) {
	char *line = NULL;
	size_t cap = 0;
	ssize_t r;
	while ((r = getline(&line, &cap, stdin)) > 0) {
		struct arg args[MAXARGS];
		char *op;
		int n = parse_req(line, &op, args);
		if (n < 0) { fputs("BADREQ\n", stdout); continue; }
		h(op, args, n, stdout);
		fputc('\n', stdout);
		fflush(stdout);
		free_args(args, n);
	}
	free(line);
	return 0;
}
#endif
