/* Unit harness for the configuration lexer/parser: includes the generated parse.c and observes
 * every yylex() call made by the real LALR driver. */
/* parse_traced.c is the generated parse.c with the driver's call `yychar = yylex ()` redirected to
 * traced_yylex() (done textually by tools/vlib.py when the harness is built). */
static int traced_yylex(void);
#include "parse_traced.c"
#include "proto.h"
#include "dump_expr.h"
#include <sys/wait.h>
#include <unistd.h>

static FILE *trace_out;
static int prev_token;
static int ntok;

/* The trace records where in the file each token begins and ends and in which mode the lexer was (pattern / scalar expected): that
 * needs the lexer's own variables (`yyfh`, `pflag`, `sflag`).  When they are not there under these names (a rewrite of how the lexer
 * reads its input), vlib.Scratch.unit_harness builds with -DHARNESS_NO_STATICS: the trace then carries -1 for offsets and modes - the
 * token sequence, the values and the diagnostics per token are still there, and `conf` is unaffected. */
#ifndef HARNESS_NO_STATICS
#define LEX_OFFSET()	ftell(yyfh)
#define LEX_PFLAG()	pflag
#define LEX_SFLAG()	sflag
#else
#define LEX_OFFSET()	(-1L)
#define LEX_PFLAG()	(-1)
#define LEX_SFLAG()	(-1)
#endif

static int traced_yylex(void) {
	long off = LEX_OFFSET();
	int pf = LEX_PFLAG(), sf = LEX_SFLAG(), am = prev_token == MACRO;
	int errs = parse_errors;
	int tok = yylex();
	long after = LEX_OFFSET();
	if (ntok++ < 4000 && trace_out != NULL) {
		fprintf(trace_out, "%ld %d %d %d > ", off, pf, sf, am);
		switch (tok) {
		case 0: fputs("eof", trace_out); break;
		case NEG: fputs("neg", trace_out); break;
		case STRING: fputs("str ", trace_out); puthex(trace_out, yylval.string, strlen(yylval.string)); break;
		case PATTERN: fprintf(trace_out, "pattern "); puthex(trace_out, yylval.pattern.string, strlen(yylval.pattern.string));
			fprintf(trace_out, " %d%d%d", !!(yylval.pattern.flags & EXPR_PATTERN_ICASE), !!(yylval.pattern.flags & EXPR_PATTERN_LCASE), !!(yylval.pattern.flags & EXPR_PATTERN_UCASE)); break;
		case INT: fprintf(trace_out, "int %u", yylval.number); break;
		case SCALAR: fprintf(trace_out, "scalar %u", yylval.number); break;
		case MACRO: fputs("macro ", trace_out); puthex(trace_out, yylval.string, strlen(yylval.string)); break;
		case AND: fputs("kw AND", trace_out); break;
		case OR: fputs("kw OR", trace_out); break;
#define K(t) case t: fputs("kw " #t, trace_out); break;
		K(ACCESS) K(ADDHEADER) K(ALL) K(ATTACHMENT) K(BODY) K(BREAK) K(COMMAND) K(CREATED) K(DATE) K(DISCARD) K(EXEC) K(FLAG) K(FLAGS)
		K(HEADER) K(ISDIRECTORY) K(LABEL) K(MAILDIR) K(MATCH) K(MODIFIED) K(MOVE) K(NEW) K(OLD) K(PASS) K(REJECT) K(STDIN)
		default: fprintf(trace_out, "char %d", tok); break;
		}
		fprintf(trace_out, " %ld %d;", after, parse_errors - errs);
	}
	prev_token = tok;
	return tok;
}

static char tdir[PATH_MAX];

/* lextrace <conf> <home> -> "<nerrors> <trace records>" */
static void op_lextrace(struct arg *a, FILE *out) {
	struct config_list cl;
	struct environment env;
	char confpath[PATH_MAX];
	FILE *f;
	int rc;
	snprintf(confpath, sizeof(confpath), "%s/conf", tdir);
	f = fopen(confpath, "w");
	if (a[0].n) fwrite(a[0].p, 1, a[0].n, f);
	fclose(f);
	memset(&env, 0, sizeof(env));
	strlcpy(env.ev_home, (const char *)a[1].p, sizeof(env.ev_home));
	env.ev_confpath = confpath;
	config_init(&cl);
	trace_out = out;
	prev_token = 0;
	ntok = 0;
	{
		/* diagnostics go to stderr: silence them */
		FILE *nul = freopen("/dev/null", "w", stderr);
		(void)nul;
	}
	fputs("T ", out);
	rc = config_parse(&cl, confpath, &env);
	fprintf(out, " E %d", rc);
}

/* conf <conf> <home> [<macro name> <macro value>]* -> "OK" + every block as dump_expr.h prints it + " L <yylex calls>",
 * or "ERR <line of the first diagnostic>" (the diagnostics are read back from stderr: "<path>:<line>: <message>"),
 * or "BADDEFS" when a -D definition is refused (mdsort.c exits before reading the file). */
static void op_conf(struct arg *a, int n, FILE *out) {
	struct config_list cl;
	struct environment env;
	char confpath[PATH_MAX], errpath[PATH_MAX], first[PATH_MAX + 256];
	FILE *f;
	size_t i, plen;
	int rc;
	snprintf(confpath, sizeof(confpath), "%s/conf", tdir);
	snprintf(errpath, sizeof(errpath), "%s/stderr", tdir);
	f = fopen(confpath, "w");
	if (a[0].n) fwrite(a[0].p, 1, a[0].n, f);
	fclose(f);
	memset(&env, 0, sizeof(env));
	strlcpy(env.ev_home, (const char *)a[1].p, sizeof(env.ev_home));
	env.ev_confpath = confpath;
	config_init(&cl);
	for (i = 2; i + 1 < (size_t)n; i += 2) {
		if (macros_insert(cl.cl_macros, (char *)a[i].p, (char *)a[i + 1].p, MACRO_FLAG_CONST | MACRO_FLAG_STICKY, 0)) {
			fputs("BADDEFS", out);
			return;
		}
	}
	trace_out = NULL;
	prev_token = 0;
	ntok = 0;
	if (freopen(errpath, "w", stderr) == NULL) { fputs("HARNESSERR", out); return; }
	rc = config_parse(&cl, confpath, &env);
	fflush(stderr);
	if (rc) {
		long line = -1;
		first[0] = 0;
		f = fopen(errpath, "r");
		if (f != NULL) { if (fgets(first, sizeof(first), f) == NULL) first[0] = 0; fclose(f); }
		plen = strlen(confpath);
		if (strncmp(first, confpath, plen) == 0 && first[plen] == ':') line = strtol(first + plen + 1, NULL, 10);
		fprintf(out, "ERR %ld", line);
		return;
	}
	fputs("OK", out);
	for (i = 0; i < VECTOR_LENGTH(cl.cl_list); i++) {
		fputs(" B", out);
		dx_strings(out, cl.cl_list[i].paths);
		dx_expr(out, cl.cl_list[i].expr);
		fputs(" ;", out);
	}
	fprintf(out, " L %d", ntok);
}

int main(void) {
	const char *base = getenv("HARNESS_TMP");
	char *line = NULL;
	size_t cap = 0;
	snprintf(tdir, sizeof(tdir), "%s/hpXXXXXX", base ? base : "/var/tmp");
	if (mkdtemp(tdir) == NULL) err(1, "mkdtemp");
	while (getline(&line, &cap, stdin) > 0) {
		pid_t pid;
		int status;
		fflush(stdout);
		pid = fork();
		if (pid == 0) {
			struct arg args[MAXARGS];
			char *op;
			int n;
			static char obuf[1 << 22];
			alarm(60);	/* a parser that does not terminate is reported as FAULT signal 14, not left running */
			/* the answer is written in one piece at the end: a child that dies leaves nothing behind, so the
			 * parent's FAULT line is the one and only answer line of that request (answers stay aligned with requests) */
			setvbuf(stdout, obuf, _IOFBF, sizeof(obuf));
			n = parse_req(line, &op, args);
			if (n == 2 && strcmp(op, "lextrace") == 0) op_lextrace(args, stdout);
			else if (n >= 2 && n % 2 == 0 && strcmp(op, "conf") == 0) op_conf(args, n, stdout);
			else fputs("BADOP", stdout);
			fputc('\n', stdout);
			fflush(stdout);
			HARNESS_GCOV_DUMP();
			_exit(0);
		}
		waitpid(pid, &status, 0);
		if (WIFSIGNALED(status)) printf("FAULT signal %d\n", WTERMSIG(status));
		else if (WEXITSTATUS(status) != 0) printf("FAULT exit %d\n", WEXITSTATUS(status));
		fflush(stdout);
	}
	{
		char cmd[PATH_MAX + 16];
		snprintf(cmd, sizeof(cmd), "rm -rf '%s'", tdir);
		return system(cmd) != 0;
	}
}
