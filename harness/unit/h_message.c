/* Unit harness for message.c (headers, MIME, flags): includes the source. */
#include "message.c"
#include "proto.h"
#include <sys/mman.h>
#include <locale.h>
#include <sys/stat.h>

static char tdir[PATH_MAX];
static int tdirfd = -1;

static struct message *load(const struct arg *a) {
	int fd = openat(tdirfd, "m", O_WRONLY | O_CREAT | O_TRUNC, 0600);
	if (fd == -1) err(1, "harness: open");
	if (a->n > 0 && write(fd, a->p, a->n) != (ssize_t)a->n) err(1, "harness: write");
	close(fd);
	return message_parse(tdir, tdirfd, "m");
}

static void dump_table(FILE *out, const struct message *msg) {
	size_t i;
	for (i = 0; i < VECTOR_LENGTH(msg->me_headers); i++) {
		const struct header *h = &msg->me_headers[i];
		fprintf(out, "%u:", h->id);
		puthex(out, h->key, strlen(h->key));
		fputc(':', out);
		puthex(out, h->val, strlen(h->val));
		fputc(',', out);
	}
	fputc('|', out);
	puthex(out, msg->me_body, strlen(msg->me_body));
}

static void dump_values(FILE *out, char *const *vals) {
	size_t i;
	if (vals == NULL) { fputs("NONE", out); return; }
	fputs("V", out);
	for (i = 0; i < VECTOR_LENGTH(vals); i++) {
		fputc(',', out);
		puthex(out, vals[i], strlen(vals[i]));
	}
}

/* message_write into an anonymous file, returned as malloc'ed bytes */
static char *write_mem(struct message *msg, size_t *len) {
	int fd = memfd_create("w", 0);
	struct stat st;
	char *buf;
	if (fd == -1) err(1, "memfd_create");
	if (message_write(msg, fd)) { close(fd); return NULL; }
	fstat(fd, &st);
	buf = malloc((size_t)st.st_size + 1);
	lseek(fd, 0, SEEK_SET);
	if (read(fd, buf, (size_t)st.st_size) != st.st_size) err(1, "harness: read");
	*len = (size_t)st.st_size;
	close(fd);
	return buf;
}

static void handle(const char *op, struct arg *a, int n, FILE *out) {
	struct message *msg;
	if (strcmp(op, "hparse") == 0 && n == 1) {
		msg = load(&a[0]);
		if (msg == NULL) { fputs("ERR", out); return; }
		dump_table(out, msg);
		message_free(msg);
	} else if (strcmp(op, "hget") == 0 && n == 2) {
		msg = load(&a[1]);
		if (msg == NULL) { fputs("ERR", out); return; }
		dump_values(out, message_get_header(msg, (const char *)a[0].p));
		message_free(msg);
	} else if (strcmp(op, "hset") == 0 && n >= 2 && n % 2 == 0) {
		/* hset <msg> <probe> (<key> <val>)*: apply, write, dump output, then look probe up */
		size_t len = 0;
		char *o;
		int i;
		msg = load(&a[0]);
		if (msg == NULL) { fputs("ERR", out); return; }
		/* reading the message (what conditions do before an action rewrites it) must not change what is written */
		(void)message_get_header(msg, (const char *)a[1].p);
		for (i = 2; i + 1 < n; i += 2)
			(void)message_get_header(msg, (const char *)a[i].p);
		(void)message_get_body(msg);
		for (i = 2; i + 1 < n; i += 2)
			message_set_header(msg, (const char *)a[i].p, strdup((const char *)a[i + 1].p));
		o = write_mem(msg, &len);
		if (o == NULL) { fputs("ERR", out); message_free(msg); return; }
		puthex(out, o, len);
		free(o);
		fputc(' ', out);
		dump_values(out, message_get_header(msg, (const char *)a[1].p));
		/* a second write must give the same bytes */
		o = write_mem(msg, &len);
		fputc(' ', out);
		if (o == NULL) fputs("ERR", out); else { puthex(out, o, len); free(o); }
		message_free(msg);
	} else if (strcmp(op, "parts") == 0 && n == 1) {
		struct message **att;
		size_t i;
		msg = load(&a[0]);
		if (msg == NULL) { fputs("ERR", out); return; }
		att = message_get_attachments(msg);
		if (att == NULL) { fputs("NONE", out); message_free(msg); return; }
		fprintf(out, "P%zu", VECTOR_LENGTH(att));
		for (i = 0; i < VECTOR_LENGTH(att); i++) {
			const char *b;
			fputc(' ', out);
			dump_table(out, att[i]);
			fputc('|', out);
			b = message_get_body(att[i]);
			if (b == NULL) fputs("NONE", out); else { fputs("B", out); puthex(out, b, strlen(b)); }
		}
		message_free_attachments(att);
		message_free(msg);
	} else if (strcmp(op, "body") == 0 && n == 1) {
		const char *b, *b2;
		msg = load(&a[0]);
		if (msg == NULL) { fputs("ERR", out); return; }
		b = message_get_body(msg);
		if (b == NULL) fputs("NONE", out); else { fputs("B", out); puthex(out, b, strlen(b)); }
		/* after an error mdsort never looks at the message again (the attachment cache is
		 * left partially filled then), so stability is only required of successful calls */
		if (b != NULL) {
			b2 = message_get_body(msg);
			if (b2 == NULL || strcmp(b, b2) != 0) fputs(" UNSTABLE", out);
		}
		message_free(msg);
#ifndef HARNESS_NO_STATICS
	/* ops that call a static function directly: compiled out (BADOP) when the function's signature changed and the harness
	 * would not build otherwise (vlib.Scratch.unit_harness retries with -DHARNESS_NO_STATICS and reports the lost ops) */
	} else if (strcmp(op, "unfold") == 0 && n == 1) {
		char *u = unfoldheader((const char *)a[0].p);
		puthex(out, u, strlen(u)); free(u);
#endif
	} else if (strcmp(op, "ctype") == 0 && n == 0) {
		/* the ctype tables the model assumes */
		int c;
		for (c = 0; c < 256; c++)
			fprintf(out, "%d%d%d%d%02x%02x", !!isspace(c), !!isdigit(c), !!isupper(c), !!islower(c), tolower(c) & 0xff, toupper(c) & 0xff);
	} else fputs("BADOP", out);
}

int main(void) {
	const char *base = getenv("HARNESS_TMP");
	snprintf(tdir, sizeof(tdir), "%s/hmXXXXXX", base ? base : "/var/tmp");
	if (mkdtemp(tdir) == NULL) err(1, "mkdtemp");
	tdirfd = open(tdir, O_RDONLY | O_DIRECTORY);
	setlocale(LC_CTYPE, "");
	serve(handle);
	unlinkat(tdirfd, "m", 0);
	rmdir(tdir);
	return 0;
}
