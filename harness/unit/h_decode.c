/* Unit harness for decode.c: includes the source to reach its static functions. */
#include "decode.c"
#include "proto.h"

static void handle(const char *op, struct arg *a, int n, FILE *out) {
	if (n != 1) { fputs("BADOP", out); return; }
	if (strcmp(op, "b64") == 0) {
		char *d = base64_decode((const char *)a[0].p);
		if (d == NULL) { fputs("NONE", out); return; }
		fputs("OK ", out); puthex(out, d, strlen(d)); free(d);
	} else if (strcmp(op, "b64raw") == 0) {
		size_t len = strlen((const char *)a[0].p);
		unsigned char *t = malloc(len + 1);
		int r = b64_pton((const char *)a[0].p, t, len + 1);
		if (r == -1) fputs("NONE", out);
		else { fputs("OK ", out); puthex(out, t, (size_t)r); }
		free(t);
	} else if (strcmp(op, "qp") == 0 || strcmp(op, "qprfc") == 0) {
		/* qprfc, qphrfc, r2047rfc: the same entry points, compared with the RFC readings (Spec/DecodeRFC.lean) */
		char *d = quoted_printable_decode((const char *)a[0].p);
		puthex(out, d, strlen(d)); free(d);
	} else if (strcmp(op, "qph") == 0 || strcmp(op, "qphrfc") == 0) {
		/* the static buffer-level decoder in header mode, full length */
		struct buffer *bf = buffer_alloc(16);
		quoted_printable_decode_buffer(bf, (const char *)a[0].p, strlen((const char *)a[0].p), 1);
		puthex(out, buffer_get_ptr(bf), buffer_get_len(bf));
		buffer_free(bf);
	} else if (strcmp(op, "r2047") == 0 || strcmp(op, "r2047rfc") == 0) {
		char *d = rfc2047_decode((const char *)a[0].p);
		puthex(out, d, strlen(d)); free(d);
	} else fputs("BADOP", out);
}

int main(void) { return serve(handle); }
