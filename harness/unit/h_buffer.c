/* Unit harness for libks/buffer.c (the growable buffer every string of mdsort is built in): includes the source.
 *
 * lbuf <start> (<op> <piece>)* [<final>]       all arguments hex
 *   start   decimal size hint for buffer_alloc(), or "R" followed by one more argument <data>: buffer_read_fd() on a
 *           descriptor that delivers <data>
 *   op      s = buffer_puts(piece, len)   c = buffer_putc(piece[0])   f = buffer_printf("%s", piece)
 *           r = buffer_reset()            p = buffer_pop(n), piece = n in decimal      (neither is called by mdsort)
 *   final   T = buffer_str()              L = buffer_putc('\0') + buffer_release()   (the idiom of decode.c / match.c / parse.y)
 * -> R <return values, one digit each | -> <bf_len> <bf_siz> <hex of the bf_len bytes in use> [<hex of the C string handed out>]
 * Built with ASan + UBSan: a write outside the allocation ends the process and is reported as FAULT by the caller. */
#include "buffer.c"
#define MAXARGS 1024
#include "proto.h"
#include <sys/mman.h>

static void handle(const char *op, struct arg *a, int n, FILE *out) {
	struct buffer *bf;
	char rcs[MAXARGS + 1];
	int nrc = 0, i = 1;
	char *str = NULL;

	if (strcmp(op, "lbuf") != 0 || n < 1) { fputs("BADOP", out); return; }
	if (a[0].n == 1 && a[0].p[0] == 'R') {
		int fd;
		if (n < 2) { fputs("BADOP", out); return; }
		fd = memfd_create("lbuf", 0);
		if (fd == -1) { fputs("ERR memfd", out); return; }
		if (a[1].n > 0 && write(fd, a[1].p, a[1].n) != (ssize_t)a[1].n) { fputs("ERR write", out); close(fd); return; }
		lseek(fd, 0, SEEK_SET);
		bf = buffer_read_fd(fd);
		close(fd);
		i = 2;
	} else {
		bf = buffer_alloc((size_t)strtoul((const char *)a[0].p, NULL, 10));
	}
	if (bf == NULL) { fputs("ERR alloc", out); return; }
	for (; i + 1 < n; i += 2) {
		int rc = 0;
		switch (a[i].p[0]) {
		case 's': rc = buffer_puts(bf, (const char *)a[i + 1].p, a[i + 1].n); break;
		case 'c': rc = buffer_putc(bf, (char)a[i + 1].p[0]); break;
		case 'f': rc = buffer_printf(bf, "%s", (const char *)a[i + 1].p); break;
		case 'r': buffer_reset(bf); break;
		case 'p': (void)buffer_pop(bf, (size_t)strtoul((const char *)a[i + 1].p, NULL, 10)); break;
		default: fputs("BADOP", out); buffer_free(bf); return;
		}
		rcs[nrc++] = (char)('0' + (rc & 7));
	}
	rcs[nrc] = '\0';
	fprintf(out, "R %s %zu %zu ", nrc ? rcs : "-", buffer_get_len(bf), buffer_get_size(bf));
	puthex(out, buffer_get_ptr(bf), buffer_get_len(bf));
	if (i < n) {
		if (a[i].p[0] == 'T') str = buffer_str(bf);
		else if (a[i].p[0] == 'L') { buffer_putc(bf, '\0'); str = buffer_release(bf); }
		if (str != NULL) { fputc(' ', out); puthex(out, str, strlen(str)); free(str); }
	}
	buffer_free(bf);
}

int main(void) { return serve(handle); }
