/* Dump of a `struct expr` tree as the real parser built it (prefix notation, strings hex).
 * Same format as dump_expr() of h_expr.c (op `ast`); Driver/Ast.lean reads it, Driver/Conf.lean prints it
 * for the parser model.  Needs proto.h (puthex) and expr.h. */
#ifndef VERIF_DUMP_EXPR_H
#define VERIF_DUMP_EXPR_H

static void dx_hexs(FILE *o, const char *s) { puthex(o, s, strlen(s)); }

static void dx_strings(FILE *o, const struct string_list *sl) {
	const struct string *s;
	fprintf(o, " %zu", strings_len(sl));
	TAILQ_FOREACH(s, sl, entry) { fputc(' ', o); dx_hexs(o, s->val); }
}

static void dx_pat(FILE *o, const struct expr *ex) {
	/* the pattern source is not kept by mdsort: the caller knows it */
	fputs(" ? ", o);
	if (ex->ex_re.flags & EXPR_PATTERN_LCASE) fputc('l', o);
	if (ex->ex_re.flags & EXPR_PATTERN_UCASE) fputc('u', o);
	fputc('.', o);
}

static void dx_expr(FILE *o, const struct expr *ex) {
	if (ex == NULL) { fputs(" NULL", o); return; }
	switch (ex->ex_type) {
	case EXPR_TYPE_BLOCK: fprintf(o, " block %u", ex->ex_lno); dx_expr(o, ex->ex_lhs); break;
	case EXPR_TYPE_AND: fprintf(o, " and %u", ex->ex_lno); dx_expr(o, ex->ex_lhs); dx_expr(o, ex->ex_rhs); break;
	case EXPR_TYPE_OR: fprintf(o, " or %u", ex->ex_lno); dx_expr(o, ex->ex_lhs); dx_expr(o, ex->ex_rhs); break;
	case EXPR_TYPE_NEG: fprintf(o, " neg %u", ex->ex_lno); dx_expr(o, ex->ex_lhs); break;
	case EXPR_TYPE_MATCH: fprintf(o, " match %u", ex->ex_lno); dx_expr(o, ex->ex_lhs); dx_expr(o, ex->ex_rhs); break;
	case EXPR_TYPE_ALL: fprintf(o, " all %u", ex->ex_lno); break;
	case EXPR_TYPE_ATTACHMENT: fprintf(o, " attachment %u", ex->ex_lno); dx_expr(o, ex->ex_lhs); break;
	case EXPR_TYPE_BODY: fprintf(o, " body %u", ex->ex_lno); dx_pat(o, ex); break;
	case EXPR_TYPE_DATE:
		fprintf(o, " date %u %c %c %lld", ex->ex_lno,
		    "hamc"[ex->ex_date.field], ex->ex_date.cmp == EXPR_DATE_CMP_LT ? '<' : '>', (long long)ex->ex_date.age);
		break;
	case EXPR_TYPE_HEADER: fprintf(o, " header %u", ex->ex_lno); dx_strings(o, ex->ex_strings); dx_pat(o, ex); break;
	case EXPR_TYPE_NEW: fprintf(o, " new %u", ex->ex_lno); break;
	case EXPR_TYPE_OLD: fprintf(o, " old %u", ex->ex_lno); break;
	case EXPR_TYPE_STAT: fprintf(o, " stat %u ", ex->ex_lno); dx_hexs(o, TAILQ_FIRST(ex->ex_strings)->val); break;
	case EXPR_TYPE_COMMAND: fprintf(o, " command %u", ex->ex_lno); dx_strings(o, ex->ex_strings); break;
	case EXPR_TYPE_MOVE: fprintf(o, " move %u ", ex->ex_lno); dx_hexs(o, TAILQ_FIRST(ex->ex_strings)->val); break;
	case EXPR_TYPE_FLAG: fprintf(o, " flag %u ", ex->ex_lno); dx_hexs(o, TAILQ_FIRST(ex->ex_strings)->val); break;
	case EXPR_TYPE_FLAGS: fprintf(o, " flags %u ", ex->ex_lno); dx_hexs(o, TAILQ_FIRST(ex->ex_strings)->val); break;
	case EXPR_TYPE_DISCARD: fprintf(o, " discard %u", ex->ex_lno); break;
	case EXPR_TYPE_BREAK: fprintf(o, " break %u", ex->ex_lno); break;
	case EXPR_TYPE_LABEL: fprintf(o, " label %u", ex->ex_lno); dx_strings(o, ex->ex_strings); break;
	case EXPR_TYPE_PASS: fprintf(o, " pass %u", ex->ex_lno); break;
	case EXPR_TYPE_REJECT: fprintf(o, " reject %u", ex->ex_lno); break;
	case EXPR_TYPE_EXEC:
		fprintf(o, " exec %u %d %d", ex->ex_lno, !!(ex->ex_exec.flags & EXPR_EXEC_STDIN), !!(ex->ex_exec.flags & EXPR_EXEC_BODY));
		dx_strings(o, ex->ex_strings);
		break;
	case EXPR_TYPE_ATTACHMENT_BLOCK: fprintf(o, " attblock %u", ex->ex_lno); dx_expr(o, ex->ex_lhs); break;
	case EXPR_TYPE_ADD_HEADER:
		fprintf(o, " addheader %u ", ex->ex_lno); dx_hexs(o, ex->ex_add_header.key); fputc(' ', o); dx_hexs(o, ex->ex_add_header.val);
		break;
	}
}
#endif
